//! Minimisation of a failing session: shrink the PLAN (steps, threads,
//! faults, operands, modes), never the seed.  Every candidate is executed in a
//! FRESH PROCESS (`sim replay`), so a tree with process-global state cannot
//! make one candidate's leftovers decide the next one's verdict.  A candidate
//! is accepted only if its first violation has the same signature
//! (layer:kind) as the original's.

use std::fs;
use std::path::{Path, PathBuf};
use std::process::Command;

use crate::l2;
use crate::ops::Op;
use crate::plan::{Action, Api, Plan, Session, Step};

pub struct Minimizer {
    exe: PathBuf,
    tmp: PathBuf,
    pub target: String,
    pub candidates: u64,
    watchdog: u64,
    /// stop shrinking (keep the best so far) after this instant
    deadline: std::time::Instant,
    best: Option<(usize, usize, String)>,
}

fn replay_signature(exe: &Path, file: &Path, watchdog: u64) -> Result<(Option<String>, String), String> {
    let out = Command::new(exe)
        .arg("replay")
        .arg(file)
        .arg("--quiet")
        .arg("--watchdog")
        .arg(watchdog.to_string())
        .output()
        .map_err(|e| format!("spawn replay: {}", e))?;
    let stdout = String::from_utf8_lossy(&out.stdout).to_string();
    let code = out.status.code();
    let mut sig = None;
    let mut hash = String::new();
    for l in stdout.lines() {
        if let Some(s) = l.strip_prefix("SIGNATURE ") {
            sig = Some(s.trim().to_string());
        }
        if let Some(s) = l.strip_prefix("LOGHASH ") {
            hash = s.trim().to_string();
        }
    }
    match code {
        Some(0) => Ok((None, hash)),
        Some(1) => Ok((sig, hash)),
        // a candidate that crashes the harness is simply not accepted
        _ => Ok((None, hash)),
    }
}

/// The simplest witness operation of the same kind (first L2 witness).
fn simplest_of_kind(op: &Op) -> Option<Op> {
    let kind = op.kind();
    for f in l2::families() {
        if let Some(first) = f.ops.first() {
            if first.kind() == kind {
                return Some(first.clone());
            }
        }
    }
    None
}

impl Minimizer {
    pub fn new(tmpdir: &Path, watchdog: u64, budget_secs: u64) -> Result<Minimizer, String> {
        let exe = std::env::current_exe().map_err(|e| e.to_string())?;
        fs::create_dir_all(tmpdir).map_err(|e| e.to_string())?;
        Ok(Minimizer {
            exe,
            tmp: tmpdir.join(format!("cand-{}.session", std::process::id())),
            target: String::new(),
            candidates: 0,
            watchdog,
            deadline: std::time::Instant::now() + std::time::Duration::from_secs(budget_secs),
            best: None,
        })
    }

    pub fn signature_of(&mut self, s: &Session) -> Result<Option<String>, String> {
        fs::write(&self.tmp, s.to_text()).map_err(|e| e.to_string())?;
        self.candidates += 1;
        Ok(replay_signature(&self.exe, &self.tmp, self.watchdog)?.0)
    }

    /// Well-founded measure (steps, text length, text): a candidate is only
    /// ever accepted if it is strictly smaller, so minimisation terminates.
    fn measure(s: &Session) -> (usize, usize, String) {
        let t = s
            .plans
            .iter()
            .map(|p| {
                let mut q = p.clone();
                q.note.clear();
                q.to_text()
            })
            .collect::<String>();
        (s.plans.iter().map(|p| p.steps.len()).sum(), t.len(), t)
    }

    fn fails(&mut self, s: &Session) -> bool {
        if std::time::Instant::now() > self.deadline {
            return false; // out of budget: no further shrinking
        }
        if let Some(best) = &self.best {
            if Self::measure(s) >= *best {
                return false; // not simpler than what we already have
            }
        }
        let r = self.fails_raw(s);
        if r {
            self.best = Some(Self::measure(s));
        }
        r
    }

    fn fails_raw(&mut self, s: &Session) -> bool {
        matches!(self.signature_of(s), Ok(Some(sig)) if sig == self.target)
    }

    pub fn cleanup(&self) {
        let _ = fs::remove_file(&self.tmp);
    }

    /// ddmin over a flat list of items rebuilt into a session by `build`.
    fn ddmin<T: Clone>(
        &mut self,
        mut items: Vec<T>,
        build: &dyn Fn(&[T]) -> Session,
    ) -> Vec<T> {
        let mut n = 2usize;
        while items.len() >= 2 {
            let chunk = (items.len() + n - 1) / n;
            let mut reduced = false;
            let mut start = 0;
            while start < items.len() {
                let end = (start + chunk).min(items.len());
                let mut cand: Vec<T> = Vec::with_capacity(items.len());
                cand.extend_from_slice(&items[..start]);
                cand.extend_from_slice(&items[end..]);
                if !cand.is_empty() && self.fails(&build(&cand)) {
                    items = cand;
                    n = (n - 1).max(2);
                    reduced = true;
                    break;
                }
                start = end;
            }
            if !reduced {
                if chunk == 1 {
                    break;
                }
                n = (n * 2).min(items.len());
            }
        }
        // a single remaining item might be droppable too
        if items.len() == 1 && self.fails(&build(&[])) {
            items.clear();
        }
        items
    }

    pub fn minimize(&mut self, orig: &Session) -> Result<Session, String> {
        let sig = self
            .signature_of(orig)?
            .ok_or("the session does not fail when replayed in a fresh process")?;
        if sig.starts_with("blocked") {
            // every failing candidate costs one watchdog period
            self.watchdog = 1;
        }
        self.target = sig;
        self.best = Some(Self::measure(orig));
        let mut cur = orig.clone();

        // 1. whole runs (the last one is where the violation showed)
        if cur.plans.len() > 1 {
            let last = cur.plans.last().unwrap().clone();
            let only_last = Session { plans: vec![last.clone()] };
            if self.fails(&only_last) {
                cur = only_last;
            } else {
                let earlier: Vec<Plan> = cur.plans[..cur.plans.len() - 1].to_vec();
                let l2 = last.clone();
                let kept = self.ddmin(earlier, &move |ps: &[Plan]| {
                    let mut v = ps.to_vec();
                    v.push(l2.clone());
                    Session { plans: v }
                });
                let mut v = kept;
                v.push(last);
                cur = Session { plans: v };
            }
        }

        // 2. whole threads, then steps (flattened over all runs)
        loop {
            let before = cur.clone();
            // drop all steps of one thread at a time
            for pi in 0..cur.plans.len() {
                let mut tids: Vec<u32> = cur.plans[pi].steps.iter().map(|s| s.tid).collect();
                tids.sort();
                tids.dedup();
                for t in tids.into_iter().rev() {
                    let mut cand = cur.clone();
                    cand.plans[pi].steps.retain(|s| {
                        s.tid != t && !matches!(s.action, Action::Spawn { child, .. } if child == t)
                    });
                    if cand != cur && self.fails(&cand) {
                        cur = cand;
                    }
                }
            }
            let flat: Vec<(usize, Step)> = cur
                .plans
                .iter()
                .enumerate()
                .flat_map(|(pi, p)| p.steps.iter().cloned().map(move |s| (pi, s)))
                .collect();
            let shell = cur.clone();
            let kept = self.ddmin(flat, &move |xs: &[(usize, Step)]| {
                let mut s = shell.clone();
                for p in s.plans.iter_mut() {
                    p.steps.clear();
                }
                for (pi, st) in xs {
                    s.plans[*pi].steps.push(st.clone());
                }
                s
            });
            let mut s = cur.clone();
            for p in s.plans.iter_mut() {
                p.steps.clear();
            }
            for (pi, st) in kept {
                s.plans[pi].steps.push(st);
            }
            cur = s;
            // drop runs that became empty (except the last)
            if cur.plans.len() > 1 {
                let n = cur.plans.len();
                let mut cand = cur.clone();
                let mut i = 0;
                cand.plans.retain(|p| {
                    i += 1;
                    i == n || !p.steps.is_empty()
                });
                if cand != cur && self.fails(&cand) {
                    cur = cand;
                }
            }

            // 2b. fold a child into its parent: drop the spawn, let the parent
            // perform the child's steps
            for pi in 0..cur.plans.len() {
                let spawns: Vec<(u32, u32)> = cur.plans[pi]
                    .steps
                    .iter()
                    .filter_map(|s| match s.action {
                        Action::Spawn { child, .. } => Some((s.tid, child)),
                        _ => None,
                    })
                    .collect();
                for (parent, child) in spawns.into_iter().rev() {
                    let mut cand = cur.clone();
                    cand.plans[pi].steps.retain(
                        |s| !matches!(s.action, Action::Spawn { child: c, .. } if c == child),
                    );
                    for s in cand.plans[pi].steps.iter_mut() {
                        if s.tid == child {
                            s.tid = parent;
                        }
                    }
                    if self.fails(&cand) {
                        cur = cand;
                    }
                }
            }

            // 3. simplification of what is left
            for pi in 0..cur.plans.len() {
                for (field, val) in [(0, false), (1, false), (2, false), (3, false)] {
                    let mut cand = cur.clone();
                    match field {
                        3 => cand.plans[pi].ref_process = val,
                        0 => cand.plans[pi].ref_per_event = val,
                        1 => cand.plans[pi].root_probe_early = val,
                        _ => cand.plans[pi].root_api_builder = val,
                    }
                    if cand != cur && self.fails(&cand) {
                        cur = cand;
                    }
                }
                for si in 0..cur.plans[pi].steps.len() {
                    let st = cur.plans[pi].steps[si].clone();
                    if !st.yields.is_empty() {
                        // fewer mid-operation pre-emptions
                        let mut cand = cur.clone();
                        cand.plans[pi].steps[si].yields.clear();
                        if self.fails(&cand) {
                            cur = cand;
                        } else if st.yields.len() > 1 {
                            for k in 0..st.yields.len() {
                                let mut cand = cur.clone();
                                cand.plans[pi].steps[si].yields = vec![st.yields[k]];
                                if self.fails(&cand) {
                                    cur = cand;
                                    break;
                                }
                            }
                        }
                    }
                    let mut alts: Vec<Action> = Vec::new();
                    match &st.action {
                        Action::Op(op) | Action::Die(op) => {
                            let die = matches!(st.action, Action::Die(_));
                            let wrap = |o: Op| if die { Action::Die(o) } else { Action::Op(o) };
                            if let Some(simple) = simplest_of_kind(op) {
                                alts.push(wrap(simple));
                            }
                            if let Op::Fmt { a, var, w, p, pauses, err_at, reent } = op {
                                if !pauses.is_empty() || *err_at != 0 || *reent {
                                    alts.push(wrap(Op::Fmt { a: *a, var: *var, w: *w, p: *p, pauses: vec![], err_at: 0, reent: false }));
                                }
                                if *reent {
                                    alts.push(wrap(Op::Fmt { a: *a, var: *var, w: *w, p: *p, pauses: pauses.clone(), err_at: *err_at, reent: false }));
                                }
                                if *var != 0 || *w != 0 {
                                    alts.push(wrap(Op::Fmt { a: *a, var: 0, w: 0, p: *p, pauses: pauses.clone(), err_at: *err_at, reent: *reent }));
                                }
                            }
                            if die {
                                alts.push(Action::Op(op.clone()));
                            }
                        }
                        Action::Set(m) => {
                            for lower in 0..*m {
                                alts.push(Action::Set(lower));
                            }
                        }
                        Action::Spawn { child, api, probe_early } => {
                            if *api != Api::Std || *probe_early {
                                alts.push(Action::Spawn { child: *child, api: Api::Std, probe_early: false });
                            }
                        }
                        Action::Exit { probe_late: true } => {
                            alts.push(Action::Exit { probe_late: false });
                        }
                        Action::Burst { op, k } => {
                            alts.push(Action::Op(op.clone()));
                            let mut j = 2u32;
                            while j < *k {
                                alts.push(Action::Burst { op: op.clone(), k: j });
                                j = j.saturating_mul(2);
                            }
                            if let Some(simple) = simplest_of_kind(op) {
                                alts.push(Action::Burst { op: simple, k: *k });
                            }
                        }
                        Action::Crowd { n, m } => {
                            let mut k = 1u16;
                            while k < *n {
                                alts.push(Action::Crowd { n: k, m: *m });
                                k = k.saturating_mul(2);
                            }
                            if *n > 1 {
                                alts.push(Action::Crowd { n: *n - 1, m: *m });
                            }
                        }
                        Action::Churn { n, m } => {
                            // fewer short-lived threads: 1, 2, 4, … then n-1
                            let mut k = 1u16;
                            while k < *n {
                                alts.push(Action::Churn { n: k, m: *m });
                                k = k.saturating_mul(2);
                            }
                            if *n > 1 {
                                alts.push(Action::Churn { n: *n - 1, m: *m });
                            }
                        }
                        _ => {}
                    }
                    for a in alts {
                        let mut cand = cur.clone();
                        cand.plans[pi].steps[si].action = a;
                        if cand != cur && self.fails(&cand) {
                            cur = cand;
                            break;
                        }
                    }
                }
            }
            if cur == before {
                break;
            }
        }
        for p in cur.plans.iter_mut() {
            p.note = format!("minimised from: {}", p.note.lines().next().unwrap_or(""));
        }
        Ok(cur)
    }
}
