//! Second engine (thorough tier): the same workload FREE-RUNNING — no baton —
//! meant to be executed under Miri, whose scheduler (seeded by `-Zmiri-seed`,
//! pre-empting at random basic-block boundaries with
//! `-Zmiri-preemption-rate`) then decides every interleaving at instruction
//! granularity, inside the real std TLS machinery.  One Miri seed is one
//! exactly repeatable execution.  Miri also reports data races and other UB.
//!
//! Threads do not communicate, so each thread's expected outcomes are its own
//! sequential history: L1 inline (`default()` = own last set, HalfEven if
//! none), L3 against references computed sequentially, by the same real
//! code, on a fresh thread BEFORE the concurrent phase starts.
//!
//! The program also runs natively (truly parallel); that is used only as a
//! smoke test of the engine itself, never as evidence.

use std::cell::RefCell;
use std::collections::HashMap;
use std::panic::{catch_unwind, AssertUnwindSafe};
use std::sync::{Arc, Mutex};

use fpdec::RoundingMode;

use crate::gen::{gen_op, Cfg, Class, N_KINDS};
use crate::ops::{
    exec_plain, mode_index, Op, Outcome, HALF_EVEN, MODES, MODE_NAMES,
};
use crate::prng::{run_seed, Rng};

#[derive(Clone, Debug)]
enum FStep {
    Set(u8),
    Read,
    Op(Op, Outcome),
    /// spawn the logical thread with this index in `lists`
    Spawn(usize),
    /// join a previously spawned child (index in `lists`)
    Join(usize),
    /// panic out of the thread function (thread crash)
    Die,
    /// all threads of the plan meet here, then run their operations at the
    /// same time (flat shape only)
    Barrier,
}

struct FThread {
    steps: Vec<FStep>,
    probe: bool,
}

type Errors = Arc<Mutex<Vec<String>>>;

static START: std::sync::OnceLock<std::sync::Barrier> = std::sync::OnceLock::new();

struct FreeProbe {
    armed: Option<(usize, u8, Errors)>,
}

impl Drop for FreeProbe {
    fn drop(&mut self) {
        if let Some((id, expect, errs)) = self.armed.take() {
            let r = catch_unwind(|| mode_index(RoundingMode::default()));
            match r {
                Ok(m) if m == expect => {}
                Ok(m) => errs.lock().unwrap().push(format!(
                    "L1:dtor-read F{}: default() in TLS destructor = {} expected {}",
                    id, MODE_NAMES[m as usize], MODE_NAMES[expect as usize]
                )),
                Err(_) => errs.lock().unwrap().push(format!(
                    "teardown:panic F{}: default() panicked in TLS destructor",
                    id
                )),
            }
        }
    }
}

thread_local! {
    static FPROBE: RefCell<FreeProbe> = RefCell::new(FreeProbe { armed: None });
}

struct DieMarker;

fn run_thread(id: usize, lists: Arc<Vec<FThread>>, errs: Errors) {
    let me = &lists[id];
    let mut model = HALF_EVEN;
    let mut handles: HashMap<usize, (std::thread::JoinHandle<()>, bool)> =
        HashMap::new();
    if me.probe {
        // installed before the library's TLS is first touched
        let e2 = errs.clone();
        FPROBE.with(|p| p.borrow_mut().armed = Some((id, HALF_EVEN, e2)));
    }
    for (i, st) in me.steps.iter().enumerate() {
        match st {
            FStep::Set(m) => {
                RoundingMode::set_default(MODES[*m as usize]);
                model = *m;
                if me.probe {
                    FPROBE.with(|p| {
                        if let Some(a) = p.borrow_mut().armed.as_mut() {
                            a.1 = *m;
                        }
                    });
                }
            }
            FStep::Read => {
                let got = mode_index(RoundingMode::default());
                if got != model {
                    errs.lock().unwrap().push(format!(
                        "L1:read F{} step {}: default() = {} but own last set is {}",
                        id, i, MODE_NAMES[got as usize], MODE_NAMES[model as usize]
                    ));
                }
            }
            FStep::Op(op, expect) => {
                let got = exec_plain(op);
                if got != *expect {
                    errs.lock().unwrap().push(format!(
                        "L3:{} F{} step {}: {} under own mode {} gave {} but in isolation gives {}",
                        op.kind_name(), id, i, op.to_text(), MODE_NAMES[model as usize],
                        got.show(), expect.show()
                    ));
                }
            }
            FStep::Spawn(c) => {
                let (l2, e2, c2) = (lists.clone(), errs.clone(), *c);
                let dies = lists[*c].steps.iter().any(|s| matches!(s, FStep::Die));
                let h = std::thread::spawn(move || run_thread(c2, l2, e2));
                handles.insert(*c, (h, dies));
            }
            FStep::Join(c) => {
                if let Some((h, dies)) = handles.remove(c) {
                    let r = h.join();
                    if r.is_err() != dies {
                        errs.lock().unwrap().push(format!(
                            "harness F{}: join of F{} = {:?}-ish, expected dies={}",
                            id, c, r.is_err(), dies
                        ));
                    }
                }
            }
            FStep::Die => {
                for (_, (h, _)) in handles.drain() {
                    let _ = h.join();
                }
                std::panic::panic_any(DieMarker);
            }
            FStep::Barrier => {
                if let Some(b) = START.get() {
                    b.wait();
                }
            }
        }
    }
    for (_, (h, _)) in handles.drain() {
        let _ = h.join();
    }
}

fn free_cfg() -> Cfg {
    Cfg {
        max_threads: 4,
        n_steps: 0,
        w: [0; 7],
        kinds: [true; N_KINDS],
        class_w: [1, 0, 0, 0],
        f_panic: false,
        f_die: false,
        f_exit: false,
        f_preempt: false,
        f_sink_err: false,
        f_dtor: false,
        f_reent: false,
        f_yield: false,
        personality: 0,
        spawn_shape: 0,
        builder_pct: 0,
        ref_per_event: false,
        ref_process: false,
        distinct_mode_pct: 100,
        pct_depth: 1,
        churn: None,
        crowd: None,
        burst: None,
        repeat_pct: 0,
    }
}

/// Build the per-thread lists for plan `plan_ix` (0..): shapes cycle through
/// flat / chain / respawn; panics, sink errors and a crashing thread from
/// plan 2 on.
fn build(seed: u64, plan_ix: u64, steps_per_thread: usize) -> Vec<FThread> {
    let mut rng = Rng::from_seed(run_seed(seed, 0xF4EE_0000 + plan_ix));
    let cfg = free_cfg();
    let shape = plan_ix % 4;
    let rough = plan_ix >= 4;
    if shape == 3 {
        return build_hammer(&mut rng, steps_per_thread * 3, (plan_ix / 4) % 3);
    }
    // cheap, mode-sensitive kinds (Miri is ~10^4 x slower than native)
    let kinds: [usize; 8] = [0, 2, 4, 10, 11, 12, 15, 19];
    let n = 3usize;
    let mut lists: Vec<FThread> = Vec::new();
    let mut used = [false; 8];
    used[HALF_EVEN as usize] = true;
    for t in 0..n {
        let mut steps: Vec<FStep> = Vec::new();
        // every thread but the last-created sets a mode unlike anybody else's
        // early, so that children are spawned from non-default parents
        let mut pick_mode = |rng: &mut Rng| {
            let free: Vec<u8> = (0..8u8).filter(|m| !used[*m as usize]).collect();
            let m = if free.is_empty() { rng.below(8) as u8 } else { *rng.pick(&free) };
            used[m as usize] = true;
            m
        };
        if t == 0 || rng.pct(60) {
            steps.push(FStep::Read); // fresh thread: HalfEven
            let kind = *rng.pick(&kinds);
            steps.push(FStep::Op(gen_op(&mut rng, &cfg, kind, Class::Witness), Outcome::Unit));
            steps.push(FStep::Set(pick_mode(&mut rng)));
        }
        for _ in 0..steps_per_thread {
            match rng.below(10) {
                0 => steps.push(FStep::Set(pick_mode(&mut rng))),
                1 | 2 => steps.push(FStep::Read),
                _ => {
                    let kind = *rng.pick(&kinds);
                    let class = if rough && rng.pct(15) { Class::Panicking } else { Class::Witness };
                    let mut op = gen_op(&mut rng, &cfg, kind, class);
                    if let Op::Fmt { err_at, .. } = &mut op {
                        if rough && rng.pct(30) {
                            *err_at = rng.range(1, 3) as u16;
                        }
                    }
                    steps.push(FStep::Op(op, Outcome::Unit));
                }
            }
        }
        steps.push(FStep::Read);
        lists.push(FThread { steps, probe: rough && rng.pct(60) });
    }
    // wiring
    match shape {
        0 => {
            // flat: root spawns both children after its first set; then all
            // three meet at a barrier and run their operations concurrently
            let at = lists[0].steps.iter().position(|s| matches!(s, FStep::Set(_))).map_or(0, |p| p + 1);
            lists[0].steps.insert(at, FStep::Spawn(1));
            lists[0].steps.insert(at + 1, FStep::Spawn(2));
            lists[0].steps.insert(at + 2, FStep::Barrier);
            for t in 1..n {
                let at = lists[t].steps.iter().position(|s| matches!(s, FStep::Set(_))).map_or(0, |p| p + 1);
                lists[t].steps.insert(at, FStep::Barrier);
            }
            let _ = START.set(std::sync::Barrier::new(n));
        }
        1 => {
            // chain: root -> 1 -> 2
            let at = lists[0].steps.iter().position(|s| matches!(s, FStep::Set(_))).map_or(0, |p| p + 1);
            lists[0].steps.insert(at, FStep::Spawn(1));
            let at1 = lists[1].steps.iter().position(|s| matches!(s, FStep::Set(_))).map_or(0, |p| p + 1);
            lists[1].steps.insert(at1, FStep::Spawn(2));
        }
        _ if rough => {
            // overlapping exit: root spawns 1 and 2 back to back; 1 is short
            // (sets a mode, rounds once, ends - by a crash in plan 6) and is
            // not joined until the end, so that its TEARDOWN overlaps the
            // first library calls of 2 and the root's operations
            let at = lists[0].steps.iter().position(|s| matches!(s, FStep::Set(_))).map_or(0, |p| p + 1);
            lists[0].steps.insert(at, FStep::Spawn(1));
            lists[0].steps.insert(at + 1, FStep::Spawn(2));
            let keep = lists[1].steps.iter().position(|s| matches!(s, FStep::Set(_))).map_or(2, |p| p + 2);
            let keep = keep.min(lists[1].steps.len());
            lists[1].steps.truncate(keep);
            if plan_ix % 8 == 6 {
                lists[1].steps.push(FStep::Die);
            }
            // 2 reads a few times before its first set_default
            for _ in 0..3 {
                lists[2].steps.insert(0, FStep::Read);
            }
        }
        _ => {
            // respawn: root spawns 1, joins it (thread gone, TLS slot free), spawns 2
            let at = lists[0].steps.iter().position(|s| matches!(s, FStep::Set(_))).map_or(0, |p| p + 1);
            lists[0].steps.insert(at, FStep::Spawn(1));
            let mid = (lists[0].steps.len() + at) / 2;
            lists[0].steps.insert(mid, FStep::Join(1));
            lists[0].steps.insert(mid + 1, FStep::Spawn(2));
        }
    }
    lists
}

/// "Hammer" plan: one thread holds a custom mode and keeps reading it and
/// rounding under it, while the two others — which never leave HalfEven —
/// keep calling `set_default(RoundHalfEven)` redundantly, resp. toggle
/// custom → HalfEven ("temporarily change and restore").  By the property
/// none of that may ever be visible to the first thread.  Windows of a few
/// instructions INSIDE `set_default` are only reachable this way (seeded
/// change s26: a counter decremented and re-incremented by a redundant reset).
fn build_hammer(rng: &mut Rng, steps_per_thread: usize, variant: u64) -> Vec<FThread> {
    let togglers = variant >= 1;
    let cfg = free_cfg();
    let kinds: [usize; 4] = [0, 2, 11, 19];
    let custom = {
        let m = rng.below(7) as u8;
        if m >= HALF_EVEN { m + 1 } else { m }
    };
    let mut l0: Vec<FStep> = vec![FStep::Read, FStep::Set(custom), FStep::Spawn(1), FStep::Spawn(2), FStep::Barrier];
    for i in 0..2 * steps_per_thread + 8 {
        if variant == 2 && i % 2 == 1 {
            // variant 2: the reader itself keeps switching between two custom
            // modes, so that ITS set_default calls overlap the others' (state
            // handed back and forth between threads: seeded change s47)
            let m = if (i / 2) % 2 == 0 { (custom + 1) % 8 } else { custom };
            l0.push(FStep::Set(if m == HALF_EVEN { (m + 1) % 8 } else { m }));
        }
        l0.push(FStep::Read);
        let kind = *rng.pick(&kinds);
        l0.push(FStep::Op(gen_op(rng, &cfg, kind, Class::Witness), Outcome::Unit));
    }
    l0.push(FStep::Read);
    let other = |k: u8| {
        let m = (custom + 1 + (k % 6)) % 8;
        if m == HALF_EVEN { (m + 1) % 8 } else { m }
    };
    let (l1, l2) = if togglers {
        // variant 1: both helpers keep leaving HalfEven and coming back (two
        // threads inside set_default at once: lost updates of shared
        // bookkeeping); F1 also re-asserts HalfEven redundantly
        let mut l1: Vec<FStep> = vec![FStep::Read, FStep::Barrier];
        for i in 0..steps_per_thread + 4 {
            l1.push(FStep::Set(other(i as u8)));
            l1.push(FStep::Set(HALF_EVEN));
            l1.push(FStep::Set(HALF_EVEN));
        }
        l1.push(FStep::Read);
        let mut l2: Vec<FStep> = vec![FStep::Read, FStep::Barrier];
        for i in 0..(3 * steps_per_thread) / 2 + 6 {
            l2.push(FStep::Set(other(i as u8 + 3)));
            if i % 5 == 4 {
                l2.push(FStep::Read);
            }
            l2.push(FStep::Set(HALF_EVEN));
        }
        l2.push(FStep::Read);
        (l1, l2)
    } else {
        // variant 0: the reader is the ONLY thread with a custom mode most of
        // the time; F1 never leaves HalfEven and keeps re-asserting it, F2
        // changes and restores now and then
        let mut l1: Vec<FStep> = vec![FStep::Read, FStep::Barrier];
        for _ in 0..2 * steps_per_thread + 8 {
            l1.push(FStep::Set(HALF_EVEN));
        }
        l1.push(FStep::Read);
        let mut l2: Vec<FStep> = vec![FStep::Read, FStep::Barrier];
        for i in 0..steps_per_thread + 4 {
            if i % 3 == 2 {
                l2.push(FStep::Set(other(i as u8)));
                l2.push(FStep::Read);
            }
            l2.push(FStep::Set(HALF_EVEN));
        }
        l2.push(FStep::Read);
        (l1, l2)
    };
    let _ = START.set(std::sync::Barrier::new(3));
    vec![
        FThread { steps: l0, probe: false },
        FThread { steps: l1, probe: false },
        FThread { steps: l2, probe: false },
    ]
}

/// Fill in the expected outcome of every op: sequentially, on this (fresh)
/// thread, with the thread's model mode set explicitly.
fn fill_expectations(lists: &mut [FThread]) {
    for l in lists.iter_mut() {
        let mut model = HALF_EVEN;
        for st in l.steps.iter_mut() {
            match st {
                FStep::Set(m) => model = *m,
                FStep::Op(op, expect) => {
                    RoundingMode::set_default(MODES[model as usize]);
                    *expect = exec_plain(op);
                }
                _ => {}
            }
        }
    }
}

pub fn cmd_free(kv: &HashMap<String, String>, flags: &[String]) -> Result<i32, String> {
    let num = |k: &str, d: u64| -> Result<u64, String> {
        match kv.get(k) {
            None => Ok(d),
            Some(v) => v.parse::<u64>().map_err(|e| format!("{}: {}", k, e)),
        }
    };
    let seed = num("--seed", 1)?;
    let plan_ix = num("--plan", 0)?;
    let steps = num("--steps", 8)? as usize;
    let verbose = flags.iter().any(|f| f == "--verbose");
    // silent hook for the expected panics of the real code
    std::panic::set_hook(Box::new(|_| {}));
    let lists = build(seed, plan_ix, steps);
    let lists = std::thread::spawn(move || {
        let mut l = lists;
        fill_expectations(&mut l);
        l
    })
    .join()
    .map_err(|_| "reference thread died")?;
    if verbose {
        for (i, l) in lists.iter().enumerate() {
            println!("F{} probe={}", i, l.probe);
            for s in &l.steps {
                println!("   {:?}", s);
            }
        }
    }
    let n_ops: usize = lists
        .iter()
        .map(|l| l.steps.iter().filter(|s| matches!(s, FStep::Op(..))).count())
        .sum();
    let lists = Arc::new(lists);
    let errs: Errors = Arc::new(Mutex::new(Vec::new()));
    let (l2, e2) = (lists.clone(), errs.clone());
    let root_dies = lists[0].steps.iter().any(|s| matches!(s, FStep::Die));
    let r = std::thread::spawn(move || run_thread(0, l2, e2)).join();
    if r.is_err() != root_dies {
        return Err("free: root thread ended unexpectedly".into());
    }
    let errs = errs.lock().unwrap();
    if errs.is_empty() {
        println!("FREE-OK seed={} plan={} threads={} ops={}", seed, plan_ix, lists.len(), n_ops);
        Ok(0)
    } else {
        for e in errs.iter() {
            println!("VIOLATION-FREE {}", e);
        }
        Ok(1)
    }
}
