//! Free-running engine (for Miri): placeholder, implemented below in a later step.
use std::collections::HashMap;

pub fn cmd_free(_kv: &HashMap<String, String>, _flags: &[String]) -> Result<i32, String> {
    Err("free-running engine not built yet".into())
}
