//! Marathon: ONE thread performs a very long, uninterrupted history of
//! rounding operations (2^24 … 2^32 of them), far beyond what a plan of 64
//! steps or a `burst` reaches.  Per-thread counters that wrap, bit-fields
//! that overflow into their neighbours and "refresh every N-th call" logic
//! only show here.  Every result must equal the reference computed in
//! isolation (fresh thread, same mode) before the run; `default()` is read
//! every 2^16 operations and must stay the mode the thread set.  A second
//! thread holding another mode is alive (parked) all the time.

use std::sync::mpsc::channel;

use fpdec::RoundingMode;

use crate::ops::{exec_plain, mode_index, Op, Outcome, MODES, MODE_NAMES};

fn witness_ops() -> Vec<Op> {
    vec![
        Op::Round { a: (25, 1), n: 0 },
        Op::Round { a: (-27, 1), n: 0 },
        Op::Mul { a: (35, 10), b: (1, 9), form: 0 },
        Op::DivRounded { a: (-25, 1), b: (1, 0), n: 0, form: 0 },
        Op::MulRounded { a: (53, 1), b: (1, 0), n: 0, form: 0 },
        Op::Div { a: (23, 18), b: (10, 0), form: 0 },
        Op::Round { a: (103, 3), n: 2 },
        Op::CheckedRound { a: (-35, 1), n: 0 },
    ]
}

pub fn cmd_marathon(n_ops: u64, mode: u8) -> Result<i32, String> {
    let mode = mode % 8;
    let ops = witness_ops();
    // reference: the same calls in isolation, before anything else happened
    let ops2 = ops.clone();
    let expect: Vec<Outcome> = std::thread::spawn(move || {
        RoundingMode::set_default(MODES[mode as usize]);
        ops2.iter().map(exec_plain).collect()
    })
    .join()
    .map_err(|_| "reference thread died")?;
    let ops3 = ops.clone();
    let expect_all: Vec<Vec<Outcome>> = std::thread::spawn(move || {
        (0..8usize)
            .map(|m| {
                RoundingMode::set_default(MODES[m]);
                ops3.iter().map(exec_plain).collect()
            })
            .collect()
    })
    .join()
    .map_err(|_| "reference thread died")?;
    // a number of sets that crosses 2^16 (quick) or 2^24 (when the operation count crosses 2^32)
    let n_sets: u64 = if n_ops > (1u64 << 31) { (1 << 24) + 1000 } else { (1 << 17) + 1000 };
    // a bystander thread with another mode, alive for the whole marathon
    let (btx, brx) = channel::<()>();
    let (rtx, rrx) = channel::<()>();
    let other = (mode + 3) % 8;
    let bystander = std::thread::spawn(move || {
        RoundingMode::set_default(MODES[other as usize]);
        let _ = rtx.send(()); // only now may the marathon start: no real-time overlap
        let _ = brx.recv();
        mode_index(RoundingMode::default())
    });
    let _ = rrx.recv();
    let runner = std::thread::spawn(move || -> Result<(), String> {
        let first = mode_index(RoundingMode::default());
        if first != crate::ops::HALF_EVEN {
            return Err(format!("L1:marathon-read fresh thread reads {}", MODE_NAMES[first as usize]));
        }
        RoundingMode::set_default(MODES[mode as usize]);
        let n = ops.len() as u64;
        let mut i: u64 = 0;
        while i < n_ops {
            let k = (i % n) as usize;
            let o = exec_plain(&ops[k]);
            if o != expect[k] {
                return Err(format!(
                    "L3:marathon operation #{} of one uninterrupted thread: `{}` under own mode {} gave {} but in isolation gives {}",
                    i + 1,
                    ops[k].to_text(),
                    MODE_NAMES[mode as usize],
                    o.show(),
                    expect[k].show()
                ));
            }
            i += 1;
            if i & 0xFFFF == 0 {
                let m = mode_index(RoundingMode::default());
                if m != mode {
                    return Err(format!(
                        "L1:marathon-read after {} operations default() = {} but the thread last set {}",
                        i,
                        MODE_NAMES[m as usize],
                        MODE_NAMES[mode as usize]
                    ));
                }
            }
        }
        let m = mode_index(RoundingMode::default());
        if m != mode {
            return Err(format!(
                "L1:marathon-read after {} operations default() = {} but the thread last set {}",
                i,
                MODE_NAMES[m as usize],
                MODE_NAMES[mode as usize]
            ));
        }
        // phase 2: a long history of set_default calls on the same thread
        // (generation / epoch counters on the set path wrap here)
        let mut j: u64 = 0;
        while j < n_sets {
            let mj = ((j * 5 + 3) % 8) as u8;
            RoundingMode::set_default(MODES[mj as usize]);
            let k = (j % n) as usize;
            let o = exec_plain(&ops[k]);
            if o != expect_all[mj as usize][k] {
                return Err(format!(
                    "L3:marathon after {} set_default calls on one thread: `{}` under own mode {} gave {} but in isolation gives {}",
                    j + 1,
                    ops[k].to_text(),
                    MODE_NAMES[mj as usize],
                    o.show(),
                    expect_all[mj as usize][k].show()
                ));
            }
            let r = mode_index(RoundingMode::default());
            if r != mj {
                return Err(format!(
                    "L1:marathon-read after {} set_default calls default() = {} but the thread just set {}",
                    j + 1,
                    MODE_NAMES[r as usize],
                    MODE_NAMES[mj as usize]
                ));
            }
            j += 1;
        }
        Ok(())
    });
    let res = runner.join().map_err(|_| "marathon thread died".to_string())?;
    let _ = btx.send(());
    let bm = bystander.join().map_err(|_| "bystander thread died".to_string())?;
    if let Err(e) = res {
        println!("VIOLATION-MARATHON {}", e);
        return Ok(1);
    }
    if bm != other {
        println!(
            "VIOLATION-MARATHON L1:marathon-read bystander thread reads {} after the marathon, it last set {}",
            MODE_NAMES[bm as usize], MODE_NAMES[other as usize]
        );
        return Ok(1);
    }
    println!(
        "MARATHON-OK ops={} sets={} mode={}",
        n_ops,
        n_sets,
        MODE_NAMES[mode as usize]
    );
    Ok(0)
}
