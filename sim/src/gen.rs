//! Seeded generation of plans: swarm configuration, workload, schedule and
//! fault placement — all drawn, in a fixed order, from ONE xoshiro stream.
//! The generator is pure: it never calls into `fpdec`.

use crate::ops::{Dec, Int, IntTy, Op, HALF_EVEN, KIND_NAMES, NOPREC, N_FMT_VARIANTS};
use crate::plan::{Action, Api, Plan, Step, ALL};
use crate::prng::Rng;

pub const N_KINDS: usize = KIND_NAMES.len();

/// Inputs for the bystander (`misc`) calls: ordinary values and every error
/// path (overflow, non-finite, malformed, too many digits).
pub const MISC_FLOATS: [f64; 16] = [
    0.1, 2.5, -2.5, 1e-30, 1e39, -1e39, 1.7e38, 3.0e38, 1e50, 1e54, f64::MAX,
    f64::INFINITY, f64::NAN, 123456789.125, -0.0, 5e-324,
];
pub const MISC_STRS: [&str; 14] = [
    "1.5", "-0.25", "abc", "", "1e40", "1e-20", "0.0000000000000000001",
    "12345678901234567890123456789012345678901", "-.5", "+7.", "1_000", "0e5", "1.5e", "17",
];

static YIELDS: std::sync::atomic::AtomicBool = std::sync::atomic::AtomicBool::new(false);

/// Hooks build (`--cfg fpdec_verif`) started with `--yields`: plans may
/// pre-empt threads at the library's scheduling points.
pub fn enable_yields(on: bool) {
    YIELDS.store(on, std::sync::atomic::Ordering::SeqCst);
}
pub fn yields_enabled() -> bool {
    YIELDS.load(std::sync::atomic::Ordering::SeqCst)
}
pub const N_PERSONALITIES: usize = 7;
pub const PERSONALITY_NAMES: [&str; N_PERSONALITIES] = [
    "uniform",
    "bursty",
    "round-robin",
    "alternate-two",
    "pct",
    "starve-one",
    "set-then-everyone",
];

#[derive(Clone, Copy, PartialEq, Eq, Debug)]
pub enum Class {
    Witness = 0,
    Wide = 1,
    Exact = 2,
    Panicking = 3,
}

#[derive(Clone, Debug)]
pub struct Cfg {
    pub max_threads: u32,
    pub n_steps: u32,
    /// weights: set, read, op, spawn, exit, die, sweep
    pub w: [u32; 7],
    pub kinds: [bool; N_KINDS],
    /// weights: witness, wide, exact, panicking
    pub class_w: [u32; 4],
    pub f_panic: bool,
    pub f_die: bool,
    pub f_exit: bool,
    pub f_preempt: bool,
    pub f_sink_err: bool,
    pub f_dtor: bool,
    pub f_reent: bool,
    /// hooks build only: pre-emption at the library's scheduling points
    pub f_yield: bool,
    pub personality: usize,
    /// 0 flat from the root, 1 chain (newest spawns), 2 tree (whoever acts)
    pub spawn_shape: u8,
    pub builder_pct: u32,
    pub ref_per_event: bool,
    pub ref_process: bool,
    pub distinct_mode_pct: u32,
    pub pct_depth: u32,
    /// one `churn` step (at step index, n threads, first mode) in this run
    pub churn: Option<(u32, u16, u8)>,
    /// one `crowd` step (at step index, n threads alive at once, first mode)
    pub crowd: Option<(u32, u16, u8)>,
    /// `burst` steps: chance (per cent) that an operation step becomes a
    /// burst, and the repetition count
    pub burst: Option<(u32, u32)>,
    /// chance that an operation is a verbatim repetition of an earlier one
    /// of the same run (same operands, usually another thread / mode)
    pub repeat_pct: u32,
}

impl Cfg {
    pub fn fault_free(&self) -> bool {
        !(self.f_panic
            || self.f_die
            || self.f_exit
            || self.f_preempt
            || self.f_sink_err
            || self.f_dtor
            || self.f_reent
            || self.f_yield)
    }

    pub fn describe(&self) -> String {
        let kinds: Vec<&str> = (0..N_KINDS)
            .filter(|k| self.kinds[*k])
            .map(|k| KIND_NAMES[k])
            .collect();
        format!(
            "threads<={} steps={} w(set,read,op,spawn,exit,die,sweep)={:?} \
             classes(witness,wide,exact,panicking)={:?} faults[panic={} die={} \
             exit={} preempt={} sinkerr={} dtor={} reent={} yield={}] personality={} shape={} \
             builder%={} ref={} churn={:?} crowd={:?} burst={:?} repeat%={} kinds={}",
            self.max_threads,
            self.n_steps,
            self.w,
            self.class_w,
            self.f_panic as u8,
            self.f_die as u8,
            self.f_exit as u8,
            self.f_preempt as u8,
            self.f_sink_err as u8,
            self.f_dtor as u8,
            self.f_reent as u8,
            self.f_yield as u8,
            PERSONALITY_NAMES[self.personality],
            ["flat", "chain", "tree"][self.spawn_shape as usize],
            self.builder_pct,
            if self.ref_per_event { "per-event" } else { "shared" },
            self.churn,
            self.crowd,
            self.burst,
            self.repeat_pct,
            kinds.join(",")
        )
    }
}

/// `tier_thorough`: a tenth of the runs use one reference thread per event.
pub fn gen_cfg(rng: &mut Rng, tier_thorough: bool) -> Cfg {
    let max_threads = match rng.below(10) {
        0 => 1,
        1..=3 => 2,
        4..=5 => 3,
        6..=7 => 4,
        8 => 6,
        _ => 8,
    };
    let n_steps = match rng.below(4) {
        0 => rng.range(4, 12),
        1 => rng.range(8, 24),
        2 => rng.range(16, 40),
        _ => rng.range(24, 64),
    } as u32;
    let set_pct = rng.range(5, 50) as u32;
    let mut w = [
        set_pct,
        rng.range(3, 25) as u32,
        rng.range(20, 70) as u32,
        rng.range(2, 15) as u32,
        0,
        0,
        rng.range(0, 4) as u32,
    ];
    // fault kinds: random subset; a fifth of the runs are fault-free
    let fault_free = rng.below(5) == 0;
    let mut f = [false; 7];
    if !fault_free {
        for x in f.iter_mut() {
            *x = rng.pct(55);
        }
    }
    // ablation knob for sensitivity experiments only (never set by the
    // registered commands): VERIF_DISABLE=dtor,reent,...
    if let Ok(d) = std::env::var("VERIF_DISABLE") {
        for (i, name) in ["panic", "die", "exit", "preempt", "sinkerr", "dtor", "reent"].iter().enumerate() {
            if d.split(',').any(|x| x == *name) {
                f[i] = false;
            }
        }
    }
    let [f_panic, f_die, f_exit, f_preempt, f_sink_err, f_dtor, f_reent] = f;
    // drawn only when yields are enabled, so that the hook-free build
    // generates exactly the plans it always did
    let f_yield = yields_enabled() && !fault_free && rng.pct(75);
    if f_exit {
        w[4] = rng.range(1, 10) as u32;
    }
    if f_die {
        w[5] = rng.range(1, 6) as u32;
    }
    // op kinds: random non-empty subset, biased to be large
    let mut kinds = [false; N_KINDS];
    let keep = [35u32, 60, 85, 100][rng.usize_below(4)];
    let mut any = false;
    for k in kinds.iter_mut() {
        *k = rng.pct(keep);
        any |= *k;
    }
    if !any {
        kinds[rng.usize_below(N_KINDS)] = true;
    }
    let class_w = [
        rng.range(40, 90) as u32,
        rng.range(0, 25) as u32,
        rng.range(0, 15) as u32,
        if f_panic { rng.range(3, 20) as u32 } else { 0 },
    ];
    Cfg {
        max_threads,
        n_steps,
        w,
        kinds,
        class_w,
        f_panic,
        f_die,
        f_exit,
        f_preempt,
        f_sink_err,
        f_dtor,
        f_reent,
        f_yield,
        personality: rng.usize_below(N_PERSONALITIES),
        spawn_shape: rng.below(3) as u8,
        builder_pct: [0u32, 30, 100][rng.usize_below(3)],
        ref_per_event: tier_thorough && rng.below(10) == 0,
        ref_process: tier_thorough && rng.below(50) == 0,
        distinct_mode_pct: rng.range(40, 95) as u32,
        pct_depth: rng.range(1, 3) as u32,
        churn: if rng.below(40) == 0 {
            let n = if tier_thorough && rng.pct(5) {
                rng.range(4100, 9000) // past 2^12 thread creations
            } else if rng.pct(if tier_thorough { 25 } else { 8 }) {
                rng.range(260, 1100)
            } else {
                rng.range(65, 260)
            };
            Some((rng.below(n_steps as u64) as u32, n as u16, rng.below(8) as u8))
        } else {
            None
        },
        repeat_pct: [0u32, 10, 25, 50][rng.usize_below(4)],
        burst: if rng.below(40) == 0 {
            let k = match rng.below(10) {
                0..=5 => rng.range(300, 3000),
                6..=8 => rng.range(66_000, 70_000), // past 2^16
                _ => {
                    if tier_thorough { rng.range(140_000, 300_000) } else { rng.range(3000, 20_000) }
                }
            };
            Some((rng.range(10, 40) as u32, k as u32))
        } else {
            None
        },
        crowd: if rng.below(50) == 0 {
            let n = match rng.below(4) {
                0 => rng.range(9, 20),
                1 => rng.range(17, 40),
                2 => rng.range(33, 70),
                _ => rng.range(65, if tier_thorough { 300 } else { 140 }),
            };
            Some((rng.below(n_steps as u64) as u32, n as u16, rng.below(8) as u8))
        } else {
            None
        },
    }
}

// ---------------------------------------------------------------------------
// operands

fn pow10(k: u32) -> i128 {
    10i128.pow(k)
}

/// A coefficient whose last `k` digits make the rounding decision
/// interesting: `w = ±(q·10^k + r)`.
fn rem_case(rng: &mut Rng, exact: bool, kmax: u32) -> (i128, u8) {
    // digits dropped: mostly 1-3, sometimes many
    let k = if kmax > 3 && rng.pct(30) { rng.range(4, kmax as i64) as u32 } else { rng.range(1, 3) as u32 };
    // retained part: mostly tiny (last digit / parity decide 05Up and
    // HalfEven), sometimes of any magnitude up to ~10^30
    let q = if rng.pct(70) {
        rng.range(0, 14) as i128
    } else {
        let d = rng.range(2, (34 - k as i64).min(30)) as u32;
        let lo = pow10(d - 1);
        let x = ((rng.next_u64() as u128) << 64 | rng.next_u64() as u128) % (9 * lo) as u128;
        lo + x as i128
    };
    let half = 5 * pow10(k - 1);
    let r = if exact {
        0
    } else {
        match rng.below(10) {
            0..=3 => half,                                        // tie
            4..=6 => {
                if half > 1 { 1 + (rng.next_u64() as i128).rem_euclid(half - 1) } else { half }
            } // below half (k=1: 1..4)
            _ => half + 1 + (rng.next_u64() as i128).rem_euclid(pow10(k) - half - 1), // above half
        }
    };
    let mut w = q * pow10(k) + r;
    if w == 0 {
        w = pow10(k); // keep it non-zero (zero short-cuts skip rounding)
    }
    if rng.pct(50) {
        w = -w;
    }
    (w, k as u8)
}

fn int_for(rng: &mut Rng, v: i128) -> Int {
    // a random integer type that can hold v
    let mut cands: Vec<IntTy> = Vec::new();
    for t in crate::ops::INT_TYS {
        if t.fits(v) {
            cands.push(t);
        }
    }
    Int { ty: *rng.pick(&cands), v }
}

fn big(rng: &mut Rng, digits: u32) -> i128 {
    // random positive integer with exactly `digits` decimal digits, not
    // divisible by 2 or 5 (so quotients/products are rarely exact)
    let lo = pow10(digits - 1);
    let span = (9 * lo) as u128;
    let x = ((rng.next_u64() as u128) << 64 | rng.next_u64() as u128) % span;
    let mut v = lo + x as i128;
    v |= 1;
    if v % 5 == 0 {
        v += 2;
    }
    v
}

fn small_dec(rng: &mut Rng) -> Dec {
    let c = rng.range(-999_999, 999_999) as i128;
    (if c == 0 { 7 } else { c }, rng.range(0, 9) as u8)
}

fn form4(rng: &mut Rng) -> u8 {
    rng.below(4) as u8
}
fn form5(rng: &mut Rng) -> u8 {
    rng.below(5) as u8
}

/// One operation of kind `kind` with operands of class `class`.
pub fn gen_op(rng: &mut Rng, cfg: &Cfg, kind: usize, class: Class) -> Op {
    let exact = class == Class::Exact;
    let panicking = class == Class::Panicking;
    let wide = class == Class::Wide;
    let kmax = match kind {
        0 | 1 | 2 | 19 | 22 => 17,
        10 => 9,
        4..=9 => 10,
        _ => 3,
    };
    let (w, k) = rem_case(rng, exact, kmax);
    let k32 = k as u32;
    let sign = if rng.pct(50) { -1i128 } else { 1 };
    match kind {
        // round, checked_round
        0 | 1 => {
            let (a, n): (Dec, i8) = if panicking {
                // result not representable: dev build panics, release wraps;
                // checked_round gives None
                ((i128::MAX - rng.below(1000) as i128, 0), -(rng.range(1, 6) as i8))
            } else if wide {
                // large coefficient, many digits dropped
                let dig = rng.range(25, 38) as u32;
                let s = rng.range(0, 18) as u8;
                let drop = rng.range(1, 20) as i8;
                ((sign * big(rng, dig), s), s as i8 - drop)
            } else {
                let s = rng.range(0, 18) as u8;
                ((w, s), s as i8 - k as i8)
            };
            if kind == 0 {
                Op::Round { a, n }
            } else {
                Op::CheckedRound { a, n }
            }
        }
        // mul
        2 => {
            if panicking {
                return Op::Mul {
                    a: (i128::MAX / 2 + 1 + rng.below(99) as i128, rng.range(0, 4) as u8),
                    b: (2 * sign, 0),
                    form: form5(rng),
                };
            }
            if wide {
                let da = rng.range(19, 22) as u32;
                let db = rng.range(19, 22) as u32;
                // product has da+db-1..da+db digits; result must fit 38 digits
                let need = (da + db).saturating_sub(37);
                let shift = need + rng.range(1, 4) as u32;
                let total = 18 + shift; // sa + sb
                let sa = rng.range((total as i64 - 18).max(0), 18.min(total as i64)) as u8;
                let sb = (total as u8) - sa;
                return Op::Mul {
                    a: (sign * big(rng, da), sa),
                    b: (big(rng, db), sb),
                    form: form5(rng),
                };
            }
            let wb = *rng.pick(&[1i128, -1, 2, -2, 5, -5]);
            let (wa, wb) = if w % wb == 0 { (w / wb, wb) } else { (w, 1) };
            let sa = rng.range(k as i64, 18) as u8;
            let sb = 18 + k - sa;
            let (a, b) = ((wa, sa), (wb, sb));
            if rng.pct(50) {
                Op::Mul { a, b, form: form5(rng) }
            } else {
                Op::Mul { a: b, b: a, form: form5(rng) }
            }
        }
        // checked_mul (control: never rounds)
        3 => Op::CheckedMul { a: small_dec(rng), b: small_dec(rng) },
        // div, checked_div (Decimal / Decimal)
        4 | 7 => {
            let (a, b): (Dec, Dec) = if panicking {
                (small_dec(rng), (0, rng.range(0, 5) as u8))
            } else if wide {
                // shifted dividend exceeds i128 -> 256-bit path
                let da = rng.range(22, 27) as u32;
                let db = rng.range(8, 12) as u32;
                ((sign * big(rng, da), rng.range(0, 2) as u8), (big(rng, db), rng.range(0, 2) as u8))
            } else if rng.pct(25) {
                // inexact, never a tie
                let dv = *rng.pick(&[3i128, 7, 9, 11, 13, 17, -3, -7]);
                (small_dec(rng), (dv, rng.range(0, 3) as u8))
            } else {
                // w·10^-sa / 10^(j-sb) needs 18+k digits
                let sb = rng.range(0, 3) as u32;
                let extra = rng.range(0, 2) as u32;
                let j = k32 + sb + extra;
                let sa = (18 - extra) as u8;
                ((w, sa), (sign * pow10(j), sb as u8))
            };
            if kind == 4 {
                Op::Div { a, b, form: form5(rng) }
            } else {
                Op::CheckedDiv { a, b, form: form4(rng) }
            }
        }
        // div_di, checked_div_di (Decimal / int)
        5 | 8 => {
            let (a, i): (Dec, Int) = if panicking {
                (small_dec(rng), int_for(rng, 0))
            } else if rng.pct(25) {
                let dv = *rng.pick(&[3i128, 7, 9, 11, 13, 17, -3, -7]);
                (small_dec(rng), int_for(rng, dv))
            } else {
                let j = rng.range(1, 6) as u32;
                let sa = (18 + k32).saturating_sub(j).min(18) as u8;
                // digits needed: sa + j = 18 + k (if sa was not clipped)
                let j = 18 + k32 - sa as u32;
                ((w, sa), int_for(rng, sign * pow10(j)))
            };
            if kind == 5 {
                Op::DivDI { a, i, form: form5(rng) }
            } else {
                Op::CheckedDivDI { a, i }
            }
        }
        // div_id, checked_div_id (int / Decimal)
        6 | 9 => {
            let (i, b): (Int, Dec) = if panicking {
                (int_for(rng, w), (0, rng.range(0, 5) as u8))
            } else if rng.pct(25) {
                let dv = *rng.pick(&[3i128, 7, 9, 11, 13, 17, -3, -7]);
                (int_for(rng, w), (dv, rng.range(0, 3) as u8))
            } else {
                let sb = rng.range(0, 4) as u32;
                let j = 18 + k32 + sb;
                (int_for(rng, w), (sign * pow10(j), sb as u8))
            };
            if kind == 6 {
                Op::DivID { i, b, form: form4(rng) }
            } else {
                Op::CheckedDivID { i, b }
            }
        }
        // mul_rounded
        10 => {
            if panicking {
                return Op::MulRounded {
                    a: small_dec(rng),
                    b: small_dec(rng),
                    n: rng.range(19, 60) as u8,
                    form: form4(rng),
                };
            }
            if wide {
                let da = rng.range(19, 22) as u32;
                let db = rng.range(19, 22) as u32;
                let need = (da + db).saturating_sub(37);
                let shift = need + rng.range(1, 6) as u32;
                let sa = rng.range(6, 18) as u8;
                let sb = rng.range(6, 18) as u8;
                let total = sa as u32 + sb as u32;
                let n = total.saturating_sub(shift).min(18) as u8;
                return Op::MulRounded {
                    a: (sign * big(rng, da), sa),
                    b: (big(rng, db), sb),
                    n,
                    form: form4(rng),
                };
            }
            let wb = *rng.pick(&[1i128, -1, 2, -2, 5, -5]);
            let (wa, wb) = if w % wb == 0 { (w / wb, wb) } else { (w, 1) };
            let sa = rng.range(0, 9) as u8;
            let sb = rng.range((k as i64 - sa as i64).max(0), 9) as u8;
            let n = sa + sb - k;
            Op::MulRounded { a: (wa, sa), b: (wb, sb), n, form: form4(rng) }
        }
        // div_rounded (Decimal / Decimal)
        11 => {
            if panicking {
                return if rng.pct(50) {
                    Op::DivRounded {
                        a: small_dec(rng),
                        b: (0, rng.range(0, 5) as u8),
                        n: rng.range(0, 18) as u8,
                        form: form4(rng),
                    }
                } else {
                    Op::DivRounded {
                        a: small_dec(rng),
                        b: small_dec(rng),
                        n: rng.range(19, 60) as u8,
                        form: form4(rng),
                    }
                };
            }
            if wide {
                let da = rng.range(26, 32) as u32;
                let db = rng.range(8, 12) as u32;
                return Op::DivRounded {
                    a: (sign * big(rng, da), 0),
                    b: (big(rng, db), 0),
                    n: rng.range(12, 16) as u8,
                    form: form4(rng),
                };
            }
            if rng.pct(25) {
                // tie through division by two: odd / 2
                let s = rng.range(0, 6) as u8;
                let odd = (rng.range(-200, 200) as i128) | 1;
                return Op::DivRounded { a: (odd, s), b: (2, 0), n: s, form: form4(rng) };
            }
            loop {
                let sa = rng.range(0, 8) as i32;
                let sb = rng.range(0, 3) as i32;
                let j = rng.range(0, 4) as i32;
                let n = sa + j - sb - k as i32;
                if (0..=18).contains(&n) {
                    return Op::DivRounded {
                        a: (w, sa as u8),
                        b: (sign * pow10(j as u32), sb as u8),
                        n: n as u8,
                        form: form4(rng),
                    };
                }
            }
        }
        // div_rounded (Decimal / int)
        12 => {
            if panicking {
                return Op::DivRoundedDI {
                    a: small_dec(rng),
                    i: int_for(rng, 0),
                    n: rng.range(0, 18) as u8,
                    form: form4(rng),
                };
            }
            if rng.pct(25) {
                let s = rng.range(0, 6) as u8;
                let odd = (rng.range(-200, 200) as i128) | 1;
                return Op::DivRoundedDI { a: (odd, s), i: int_for(rng, 2), n: s, form: form4(rng) };
            }
            loop {
                let sa = rng.range(0, 8) as i32;
                let j = rng.range(0, 4) as i32;
                let n = sa + j - k as i32;
                if (0..=18).contains(&n) {
                    return Op::DivRoundedDI {
                        a: (w, sa as u8),
                        i: int_for(rng, sign * pow10(j as u32)),
                        n: n as u8,
                        form: form4(rng),
                    };
                }
            }
        }
        // div_rounded (int / Decimal)
        13 => {
            if panicking {
                return Op::DivRoundedID {
                    i: int_for(rng, w),
                    b: (0, rng.range(0, 5) as u8),
                    n: rng.range(0, 18) as u8,
                    form: form4(rng),
                };
            }
            loop {
                let sb = rng.range(0, 3) as i32;
                let j = rng.range(1, 7) as i32;
                let n = j - sb - k as i32;
                if (0..=18).contains(&n) {
                    return Op::DivRoundedID {
                        i: int_for(rng, w),
                        b: (sign * pow10(j as u32), sb as u8),
                        n: n as u8,
                        form: form4(rng),
                    };
                }
            }
        }
        // div_rounded (int / int)
        14 => {
            if panicking {
                let i = int_for(rng, w);
                return Op::DivRoundedII { i, j: 0, n: rng.range(0, 18) as u8, form: form4(rng) };
            }
            // divisor 10^j must fit the type of the dividend; if it cannot, use 2/4 (ties from odd dividends)
            let jdig = rng.range(k as i64, k as i64 + 3) as u32;
            let dv = pow10(jdig);
            let mut cands: Vec<IntTy> = Vec::new();
            for t in crate::ops::INT_TYS {
                if t.fits(w) && t.fits(dv) {
                    cands.push(t);
                }
            }
            let ty = *rng.pick(&cands); // i32.. always qualify
            Op::DivRoundedII {
                i: Int { ty, v: w },
                j: dv,
                n: (jdig - k32) as u8,
                form: form4(rng),
            }
        }
        // quantize (Decimal, Decimal)
        15 => {
            if panicking {
                return Op::Quantize { a: small_dec(rng), q: (0, rng.range(0, 4) as u8), form: form4(rng) };
            }
            if rng.pct(30) {
                let q = *rng.pick(&[(5i128, 2u8), (25, 2), (3, 0), (15, 1), (-5, 2), (2, 0), (4, 1)]);
                return Op::Quantize { a: small_dec(rng), q, form: form4(rng) };
            }
            loop {
                let sa = rng.range(0, 8) as i32;
                let j = rng.range(0, 4) as i32;
                let sb = sa + j - k as i32;
                if (0..=18).contains(&sb) {
                    return Op::Quantize {
                        a: (w, sa as u8),
                        q: (sign * pow10(j as u32), sb as u8),
                        form: form4(rng),
                    };
                }
            }
        }
        // quantize (Decimal, int): sa + j = k
        16 => {
            if panicking {
                return Op::QuantizeDI { a: small_dec(rng), i: int_for(rng, 0) };
            }
            if rng.pct(30) {
                let q = *rng.pick(&[3i128, 5, 25, 2, 4, 15, -5]);
                return Op::QuantizeDI { a: small_dec(rng), i: int_for(rng, q) };
            }
            let sa = rng.range(0, k as i64) as u32;
            let j = k32 - sa;
            Op::QuantizeDI { a: (w, sa as u8), i: int_for(rng, sign * pow10(j)) }
        }
        // quantize (int, Decimal): j - sb = k
        17 => {
            if panicking {
                return Op::QuantizeID { i: int_for(rng, w), q: (0, rng.range(0, 4) as u8) };
            }
            let sb = rng.range(0, 4) as u32;
            Op::QuantizeID { i: int_for(rng, w), q: (sign * pow10(k32 + sb), sb as u8) }
        }
        // quantize (int, int)
        18 => {
            if panicking {
                return Op::QuantizeII { i: int_for(rng, w), j: 0 };
            }
            let dv = pow10(k32);
            let mut cands: Vec<IntTy> = Vec::new();
            for t in crate::ops::INT_TYS {
                // the product quotient*quant is computed as Decimal * int: no
                // int overflow concerns, only the operand types must fit
                if t.fits(w) && t.fits(dv) {
                    cands.push(t);
                }
            }
            let ty = *rng.pick(&cands);
            Op::QuantizeII { i: Int { ty, v: w }, j: dv }
        }
        // Display with precision / width / flags through the SimSink seam
        19 => {
            let var = rng.below(N_FMT_VARIANTS as u64) as u8;
            let width = if rng.pct(10) { rng.range(15, 70) as u8 } else { rng.range(0, 14) as u8 };
            let (a, p): (Dec, u8) = if wide {
                let dig = rng.range(20, 38) as u32;
                let s = rng.range(2, 18) as u8;
                ((sign * big(rng, dig), s), rng.range(0, s as i64 - 1) as u8)
            } else {
                let s = rng.range(k as i64, 18) as u8;
                let p = if rng.pct(8) { NOPREC } else if rng.pct(8) { s + rng.range(0, 3) as u8 } else { s - k };
                ((w, s), p)
            };
            let mut pauses: Vec<u16> = Vec::new();
            if cfg.f_preempt && rng.pct(70) {
                let n = rng.range(1, 2);
                for _ in 0..n {
                    let at = rng.range(1, 4) as u16;
                    if !pauses.contains(&at) {
                        pauses.push(at);
                    }
                }
                pauses.sort();
            }
            let err_at = if (cfg.f_sink_err && rng.pct(25)) || (panicking && cfg.f_sink_err) {
                rng.range(1, 4) as u16
            } else {
                0
            };
            let reent = cfg.f_reent && rng.pct(40);
            Op::Fmt { a, var, w: width, p, pauses, err_at, reent }
        }
        // Display into a sink that calls set_default itself
        22 => {
            let s = rng.range(k as i64, 18) as u8;
            Op::FmtSet { a: (w, s), p: s - k, m: rng.below(8) as u8 }
        }
        // any other public API call (must not touch the mode)
        21 => {
            let which = rng.below(crate::ops::MISC_NAMES.len() as u64) as u8;
            let floats = MISC_FLOATS;
            let strs = MISC_STRS;
            let x = if rng.pct(70) { *rng.pick(&floats) } else { f64::from_bits(rng.next_u64()) };
            let big = |rng: &mut Rng| -> Dec {
                match rng.below(4) {
                    0 => (i128::MAX - rng.below(1000) as i128, rng.range(0, 3) as u8),
                    1 => (i128::MIN + 1 + rng.below(1000) as i128, rng.range(0, 3) as u8),
                    2 => (0, rng.range(0, 5) as u8),
                    _ => small_dec(rng),
                }
            };
            let a = if panicking || wide { big(rng) } else { small_dec(rng) };
            let b = if panicking { big(rng) } else { small_dec(rng) };
            Op::Misc { which, a, b, x: x.to_bits(), s: rng.pick(&strs).to_string() }
        }
        // to_string (control)
        _ => Op::ToStr { a: if wide { (sign * big(rng, 30), rng.range(0, 18) as u8) } else { small_dec(rng) } },
    }
}

// ---------------------------------------------------------------------------
// schedule + workload

struct GThread {
    id: u32,
    mode: u8,
    /// resumes still owed to a Display op parked in the sink
    parked: u32,
    prio: u64,
    /// crashes when its parked Display op completes
    dying: bool,
}

/// Wrap an operation into a step; in the hooks build, choose the library
/// scheduling points at which the thread is pre-empted mid-operation.
/// Returns the step and the number of resumes it is expected to need.
fn op_step(rng: &mut Rng, cfg: &Cfg, tid: u32, op: Op, die: bool) -> (Step, u32) {
    let mut parked = match &op {
        Op::Fmt { pauses, .. } => pauses.len() as u32,
        _ => 0,
    };
    let mut yields: Vec<u16> = Vec::new();
    if cfg.f_yield && rng.pct(55) {
        // a rounding operation passes 4 scheduling points (helper entry,
        // round_quot entry, default(), mode resolved)
        for _ in 0..rng.range(1, 2) {
            let at = rng.range(1, 5) as u16;
            if !yields.contains(&at) {
                yields.push(at);
            }
        }
        yields.sort();
        parked += yields.len() as u32;
    }
    let action = if die { Action::Die(op) } else { Action::Op(op) };
    (Step { tid, action, yields }, parked)
}

/// The mode a step leaves its thread in, if it changes it from inside a sink.
fn fmtset_mode(st: &Step) -> Option<u8> {
    match &st.action {
        Action::Op(Op::FmtSet { m, .. }) | Action::Die(Op::FmtSet { m, .. }) => Some(*m % 8),
        _ => None,
    }
}

fn pick_kind(rng: &mut Rng, cfg: &Cfg) -> usize {
    // Display is the only operation with a mid-operation seam: when
    // pre-emption or sink errors are enabled, make it frequent
    if (cfg.f_preempt || cfg.f_sink_err || cfg.f_reent) && cfg.kinds[19] && rng.pct(25) {
        return 19;
    }
    let enabled: Vec<usize> = (0..N_KINDS).filter(|k| cfg.kinds[*k]).collect();
    *rng.pick(&enabled)
}

fn pick_class(rng: &mut Rng, cfg: &Cfg) -> Class {
    match rng.weighted(&cfg.class_w) {
        0 => Class::Witness,
        1 => Class::Wide,
        2 => Class::Exact,
        _ => Class::Panicking,
    }
}

fn pick_mode(rng: &mut Rng, cfg: &Cfg, live: &[GThread], me: u32) -> u8 {
    // transitions a per-thread register must survive: back to the initial
    // mode (also redundantly, on a thread that never left it) and setting
    // the mode one already has
    match rng.below(20) {
        0..=2 => return HALF_EVEN,
        3 => {
            if let Some(t) = live.iter().find(|t| t.id == me) {
                return t.mode;
            }
        }
        _ => {}
    }
    if rng.pct(cfg.distinct_mode_pct) {
        let mut used = [false; 8];
        for t in live {
            used[t.mode as usize] = true;
        }
        let _ = me;
        let free: Vec<u8> = (0..8u8).filter(|m| !used[*m as usize]).collect();
        if !free.is_empty() {
            return *rng.pick(&free);
        }
    }
    rng.below(8) as u8
}

pub struct Generated {
    pub plan: Plan,
    pub cfg: Cfg,
}

pub fn gen_plan(seed: u64, idx: u64, tier_thorough: bool) -> Generated {
    let mut rng = Rng::from_seed(seed);
    let cfg = gen_cfg(&mut rng, tier_thorough);
    let mut steps: Vec<Step> = Vec::new();
    let mut live: Vec<GThread> = vec![GThread { id: 0, mode: HALF_EVEN, parked: 0, prio: rng.next_u64(), dying: false }];
    let mut next_id = 1u32;
    let root_probe_early = cfg.f_dtor && rng.pct(40);
    let root_api_builder = rng.pct(cfg.builder_pct);

    // personality state
    let mut last: u32 = 0;
    let mut rr: usize = 0;
    let mut pair: (u32, u32) = (0, 0);
    let mut toggle = false;
    let victim_slot = rng.below(4) as usize; // starve-one: which live slot
    let mut forced: Vec<u32> = Vec::new(); // set-then-everyone queue
    let mut change_points: Vec<u32> = Vec::new();
    for _ in 0..cfg.pct_depth {
        change_points.push(rng.below(cfg.n_steps as u64) as u32);
    }

    let n = cfg.n_steps;
    let mut i = 0u32;
    let mut pool: Vec<Op> = Vec::new();
    while i < n && !live.is_empty() {
        i += 1;
        if let Some((at, cn, cm)) = cfg.crowd {
            if at + 1 == i {
                if let Some(t) = live.iter().find(|t| t.parked == 0) {
                    steps.push(Step::new(t.id, Action::Crowd { n: cn, m: cm }));
                }
            }
        }
        if let Some((at, cn, cm)) = cfg.churn {
            if at + 1 == i {
                // many short-lived threads, spawned by some thread that is not parked
                if let Some(t) = live.iter().find(|t| t.parked == 0) {
                    steps.push(Step::new(t.id, Action::Churn { n: cn, m: cm }));
                }
            }
        }
        // ---- who acts
        let mut was_forced = false;
        let slot: usize = if !forced.is_empty() {
            let want = forced.remove(0);
            match live.iter().position(|t| t.id == want) {
                Some(s) => {
                    was_forced = true;
                    s
                }
                None => continue,
            }
        } else {
            match cfg.personality {
                1 => {
                    // bursty: stay with p = 0.8
                    match live.iter().position(|t| t.id == last) {
                        Some(s) if rng.pct(80) => s,
                        _ => rng.usize_below(live.len()),
                    }
                }
                2 => {
                    rr = (rr + 1) % live.len();
                    rr
                }
                3 => {
                    // strict alternation between two threads (re-chosen when one is gone)
                    let ok = |id: u32, live: &Vec<GThread>| live.iter().any(|t| t.id == id);
                    if !ok(pair.0, &live) || !ok(pair.1, &live) || pair.0 == pair.1 {
                        let a = rng.usize_below(live.len());
                        let b = rng.usize_below(live.len());
                        pair = (live[a].id, live[b].id);
                    }
                    toggle = !toggle;
                    let want = if toggle { pair.0 } else { pair.1 };
                    live.iter().position(|t| t.id == want).unwrap_or(0)
                }
                4 => {
                    // PCT-style: highest priority runs; at change points it drops to the bottom
                    let mut best = 0usize;
                    for (s, t) in live.iter().enumerate() {
                        if t.prio > live[best].prio {
                            best = s;
                        }
                    }
                    if change_points.contains(&i) {
                        live[best].prio = rng.below(1 << 20);
                    }
                    // a little noise so that one thread does not run alone forever
                    if rng.pct(15) { rng.usize_below(live.len()) } else { best }
                }
                5 => {
                    // starve-one: the victim gets nothing during the first 3/4 of the run
                    let v = victim_slot % live.len();
                    if live.len() > 1 && i < n * 3 / 4 {
                        let mut s = rng.usize_below(live.len() - 1);
                        if s >= v {
                            s += 1;
                        }
                        s
                    } else if i >= n * 3 / 4 && rng.pct(70) {
                        v
                    } else {
                        rng.usize_below(live.len())
                    }
                }
                _ => rng.usize_below(live.len()),
            }
        };
        let tid = live[slot].id;
        last = tid;

        // ---- what it does
        if live[slot].parked > 0 {
            // the only thing a thread parked inside Display can do; sometimes
            // let somebody else act instead so that the park lasts
            if rng.pct(60) && live.len() > 1 {
                let others: Vec<usize> = (0..live.len()).filter(|s| live[*s].parked == 0).collect();
                if !others.is_empty() {
                    let s2 = *rng.pick(&others);
                    let t2 = live[s2].id;
                    // a foreign set or op right while `tid` is parked
                    if rng.pct(60) {
                        let m = pick_mode(&mut rng, &cfg, &live, t2);
                        live[s2].mode = m;
                        steps.push(Step::new(t2, Action::Set(m)));
                    } else {
                        let kind = pick_kind(&mut rng, &cfg);
                        let op = gen_op(&mut rng, &cfg, kind, Class::Witness);
                        let (st, parked) = op_step(&mut rng, &cfg, t2, op, false);
                        live[s2].parked = parked;
                        if let Some(m) = fmtset_mode(&st) {
                            live[s2].mode = m;
                        }
                        steps.push(st);
                    }
                    continue;
                }
            }
            live[slot].parked -= 1;
            steps.push(Step::new(tid, Action::Resume));
            if live[slot].parked == 0 && live[slot].dying {
                live.remove(slot);
            }
            continue;
        }
        let mut w = cfg.w;
        if live.len() as u32 >= cfg.max_threads {
            w[3] = 0;
        }
        if live.iter().filter(|t| !t.dying).count() <= 1 {
            w[4] = 0;
            w[5] = 0;
        }
        if was_forced {
            // set-then-everyone: every other thread rounds once right after a foreign set
            w = [0, 0, 1, 0, 0, 0, 0];
        }
        let action = match rng.weighted(&w) {
            0 => {
                let m = pick_mode(&mut rng, &cfg, &live, tid);
                live[slot].mode = m;
                if cfg.personality == 6 {
                    for t in &live {
                        if t.id != tid && t.parked == 0 {
                            forced.push(t.id);
                        }
                    }
                }
                Action::Set(m)
            }
            1 => Action::Read,
            2 => {
                let op = if !pool.is_empty() && rng.pct(cfg.repeat_pct) {
                    // the very same call again (same operands), typically on
                    // another thread or after a set
                    rng.pick(&pool).clone()
                } else {
                    let kind = pick_kind(&mut rng, &cfg);
                    let class = pick_class(&mut rng, &cfg);
                    let op = gen_op(&mut rng, &cfg, kind, class);
                    if pool.len() < 6 {
                        pool.push(op.clone());
                    } else {
                        let k = rng.usize_below(6);
                        pool[k] = op.clone();
                    }
                    op
                };
                if let Some((pct, k)) = cfg.burst {
                    if !Op::is_control_kind(op.kind()) && op.kind() != 22 && rng.pct(pct) {
                        steps.push(Step::new(tid, Action::Burst { op, k }));
                        continue;
                    }
                }
                let (st, parked) = op_step(&mut rng, &cfg, tid, op, false);
                live[slot].parked = parked;
                if let Some(m) = fmtset_mode(&st) {
                    live[slot].mode = m;
                }
                steps.push(st);
                continue;
            }
            3 => {
                // who is the parent depends on the spawn shape
                let pslot = match cfg.spawn_shape {
                    0 => live.iter().position(|t| t.id == 0).unwrap_or(slot),
                    1 => live.len() - 1,
                    _ => slot,
                };
                let pslot = if live[pslot].parked > 0 { slot } else { pslot };
                let child = next_id;
                next_id += 1;
                let api = if rng.pct(cfg.builder_pct) { Api::Builder } else { Api::Std };
                let probe_early = cfg.f_dtor && rng.pct(40);
                let parent = live[pslot].id;
                live.push(GThread { id: child, mode: HALF_EVEN, parked: 0, prio: rng.next_u64(), dying: false });
                steps.push(Step::new(parent, Action::Spawn { child, api, probe_early }));
                // bias: the child acts right away half of the time (inheritance shows on its first op)
                if rng.pct(50) {
                    let kind = pick_kind(&mut rng, &cfg);
                    let op = gen_op(&mut rng, &cfg, kind, Class::Witness);
                    let cs = live.len() - 1;
                    let (st, parked) = op_step(&mut rng, &cfg, child, op, false);
                    live[cs].parked = parked;
                    if let Some(m) = fmtset_mode(&st) {
                        live[cs].mode = m;
                    }
                    steps.push(st);
                }
                continue;
            }
            4 => {
                let probe_late = cfg.f_dtor && rng.pct(50);
                live.remove(slot);
                Action::Exit { probe_late }
            }
            5 => {
                let kind = pick_kind(&mut rng, &cfg);
                let class = if rng.pct(60) { Class::Panicking } else { Class::Witness };
                let op = gen_op(&mut rng, &cfg, kind, class);
                let (st, parked) = op_step(&mut rng, &cfg, tid, op, true);
                if parked > 0 {
                    // crash while parked in the middle of the operation: the
                    // thread stays in the generator's books until its resumes
                    // are spent
                    live[slot].parked = parked;
                    live[slot].dying = true;
                } else {
                    live.remove(slot);
                }
                steps.push(st);
                continue;
            }
            _ => {
                steps.push(Step::new(ALL, Action::Sweep));
                continue;
            }
        };
        steps.push(Step::new(tid, action));
    }

    let note = format!("seed={:#018x} idx={} cfg: {}", seed, idx, cfg.describe());
    Generated {
        plan: Plan {
            ref_per_event: cfg.ref_per_event,
            ref_process: cfg.ref_process,
            root_probe_early,
            root_api_builder,
            root_is_main: false,
            steps,
            note,
        },
        cfg,
    }
}
