//! L2r — random "must move" probe (part of the L2 pre-pass).
//!
//! The witness families of `l2.rs` are built around a handful of values
//! (w/10, c/d, q+eps) and see exactly their classes.  A shortcut that ignores
//! the thread's mode for some OTHER class of operands - a particular
//! magnitude, digit count, scale difference, sign combination, bit pattern,
//! precision value - passes them.  This probe takes the opposite trade:
//! operands are random in every respect (1..36 digits, any scales, any
//! precision, every route, operand form and integer type), and the only thing
//! known about each call is that its exact result is NOT representable at the
//! target precision - by construction, not by computing the result:
//!
//! * round / checked_round / Display with precision p: the last digit of the
//!   coefficient is non-zero and fewer fractional digits are kept;
//! * `*`, `mul_rounded`: both coefficients are coprime to 10, so their product
//!   is, so no digit can be dropped exactly;
//! * `/`, `checked_div`, `div_rounded` (dividend scale <= n + divisor scale),
//!   `quantize` (= `div_rounded(q, 0) * q`, same two branches): the divisor (quantum) is a multiple of a prime p in 3..23 and
//!   the dividend is not, so the quotient never terminates (is no integer); or
//!   (Decimal / Decimal and Decimal / integer routes, one time in four or five) the divisor is 2^k or
//!   5^k and the dividend coprime to it, with k larger than the number of
//!   digits the scales and the precision leave room for - the quotient
//!   terminates, but later than where it is rounded;
//! * `div_rounded` with dividend scale > n + divisor scale (the branch that
//!   divides first and rounds afterwards): dividend = divisor * k with
//!   k % 10 != 0 - the inner division is exact (the known truncation defect of
//!   that branch, DESIGN §4, stays out) and the quotient k has more digits
//!   than are kept.
//!
//! For a value that is not representable, rounding towards minus infinity and
//! rounding towards plus infinity CANNOT give the same result, and neither can
//! rounding towards zero and away from zero.  So under the thread modes Floor
//! and Ceiling (and Down and Up) the call must return different values -
//! whatever the tie rule, whatever the kernel does with the magnitude.  Equal
//! values mean the operation did not consult the calling thread's mode.  No
//! result is ever compared with a computed number; calls that return no value
//! (overflow: None / panic) are skipped and counted.
//!
//! Probe `i` is a pure function of `i` (its own PRNG stream), so a failure is
//! replayed by its index alone: family name `probe/<i>`.

use fpdec::RoundingMode;

use crate::ops::{exec_plain, Dec, Int, IntTy, Op, Outcome, INT_TYS, MODES, MODE_NAMES, N_FMT_VARIANTS};
use crate::prng::Rng;

pub const PROBE_BASE: u64 = 0xC19_0B0B_E5EE_D001;
pub const DEFAULT_PROBES: u64 = 60_000;
pub const N_ROUTES: usize = 22;
pub const ROUTE_NAMES: [&str; N_ROUTES] = [
    "round", "checked_round", "display", "mul", "mul_rounded", "div", "checked_div", "div_di", "div_id",
    "checked_div_di", "checked_div_id", "div_rounded", "div_rounded/divide-first", "div_rounded_di",
    "div_rounded_di/divide-first", "div_rounded_id", "div_rounded_ii", "quantize", "quantize_di", "quantize_id",
    "quantize_ii", "mul/wide",
];

const PRIMES: [i128; 7] = [3, 7, 11, 13, 17, 19, 23];

fn p10(k: u32) -> i128 {
    10i128.pow(k)
}

/// A positive number with exactly `d` digits (1..=38 capped by i128), in one
/// of several shapes: uniform, all nines, power of two +-1, 10^k + small,
/// long runs of zeros.
pub fn digits(rng: &mut Rng, d: u32) -> i128 {
    let d = d.clamp(1, 37);
    let lo = p10(d - 1);
    let span = p10(d) - lo;
    let r = ((rng.next_u64() as u128) << 64 | rng.next_u64() as u128) % (span as u128);
    let uni = lo + r as i128;
    match rng.below(10) {
        0 => p10(d) - 1 - rng.below(3) as i128,
        1 => lo + rng.below(1000) as i128 % span.max(1),
        2 => {
            // the power of two nearest below 10^d, +-1
            let mut p: i128 = 1;
            while p * 2 < p10(d) {
                p *= 2;
            }
            (p + rng.range(-1, 1) as i128).max(lo)
        }
        3 => {
            // few significant digits followed by zeros
            let keep = rng.range(1, d.min(4) as i64) as u32;
            uni / p10(d - keep) * p10(d - keep)
        }
        _ => uni,
    }
}

/// A positive number with exactly `nb` bits (1..=126).
fn bits(rng: &mut Rng, nb: i64) -> i128 {
    let nb = nb.clamp(1, 126) as u32;
    let lo = 1i128 << (nb - 1);
    let r = ((rng.next_u64() as u128) << 64 | rng.next_u64() as u128) % (lo as u128);
    lo + r as i128
}

/// Two positive factors whose product has about T bits for a T at one of the
/// machine-word boundaries (32, 64, 96, 128, 192): where "fits in a u64 / an
/// i128 / three words" decides which code path multiplies and rounds.  Mostly
/// balanced (both factors near T/2 bits), sometimes lopsided.
fn boundary_pair(rng: &mut Rng) -> (i128, i128) {
    let t = *rng.pick(&[31i64, 32, 63, 64, 95, 96, 126, 127, 128, 129, 191, 192, 193]) + rng.range(-1, 1);
    let ba = if rng.pct(60) { t / 2 + rng.range(-1, 1) } else { rng.range((t - 126).max(1), (t - 1).min(126)) };
    let ba = ba.clamp(1, 126);
    let bb = (t - ba + rng.range(0, 1)).clamp(1, 126);
    (bits(rng, ba), bits(rng, bb))
}

/// A quotient that terminates LATE: divisor 2^k or 5^k with k > `min_k`, and a
/// dividend coprime to it (the quotient then has exactly k more fractional
/// digits than the scales account for, so keeping fewer is inexact).
/// Returns (dividend, divisor), both positive.
fn late_terminating(rng: &mut Rng, min_k: i64, max_d: u32) -> Option<(i128, i128)> {
    let (base, kmax): (i128, i64) = if rng.pct(60) { (2, 100) } else { (5, 43) };
    if min_k + 1 > kmax {
        return None;
    }
    let k = rng.range(min_k + 1, kmax.min(min_k + 1 + 45));
    let a = coeff(rng, max_d);
    let a = if base == 2 { a | 1 } else { not_multiple(a, 5) };
    Some((a, base.pow(k as u32)))
}

/// An integer divisor 2^k, k > `min_k`, in an integer type that holds it
/// (late-terminating quotients on the Decimal / integer routes).
fn pow2_int(rng: &mut Rng, min_k: i64) -> Option<(IntTy, i128)> {
    if min_k + 1 > 100 {
        return None;
    }
    let k = rng.range(min_k + 1, (min_k + 1 + 30).min(100));
    let v = 1i128 << k;
    let c: Vec<IntTy> = INT_TYS.iter().copied().filter(|t| t.fits(v)).collect();
    if c.is_empty() {
        None
    } else {
        Some((*rng.pick(&c), v))
    }
}

fn coeff(rng: &mut Rng, max_d: u32) -> i128 {
    let d = rng.range(1, max_d as i64) as u32;
    digits(rng, d)
}

fn sign(v: i128, rng: &mut Rng) -> i128 {
    if rng.pct(40) {
        -v
    } else {
        v
    }
}

/// smallest c' >= c with c' % 10 != 0
fn last_nonzero(c: i128) -> i128 {
    if c % 10 == 0 {
        c + 1 + (c / 10 % 7).abs() % 9
    } else {
        c
    }
}

/// smallest c' >= c coprime to 10
fn coprime10(mut c: i128) -> i128 {
    while c % 2 == 0 || c % 5 == 0 {
        c += 1;
    }
    c
}

/// smallest c' >= c (c > 0) that is no multiple of p
fn not_multiple(c: i128, p: i128) -> i128 {
    if c % p == 0 {
        c + 1
    } else {
        c
    }
}

pub fn int_for(rng: &mut Rng, signed_only: bool) -> IntTy {
    loop {
        let t = *rng.pick(&INT_TYS);
        if !signed_only || t.signed() {
            return t;
        }
    }
}

/// a positive value of at most `max_d` digits that fits `ty`
fn int_val(rng: &mut Rng, ty: IntTy, max_d: u32) -> i128 {
    let (_, hi) = ty.range();
    let hd = hi.to_string().len() as u32;
    let d = rng.range(1, hd.min(max_d).max(1) as i64) as u32;
    let v = digits(rng, d);
    if v > hi - 30 {
        (v % (hi - 30)).max(1)
    } else {
        v
    }
}

fn isign(ty: IntTy, v: i128, rng: &mut Rng) -> i128 {
    if ty.signed() {
        sign(v, rng)
    } else {
        v
    }
}

pub fn probe_op(idx: u64) -> (usize, Op) {
    let mut rng = Rng::from_seed(PROBE_BASE ^ idx.wrapping_mul(0x9E37_79B9_7F4A_7C15));
    let route = (idx % N_ROUTES as u64) as usize;
    let form4 = rng.below(4) as u8;
    let form5 = rng.below(5) as u8;
    let sa = rng.range(0, 18) as u8;
    let sb = if rng.pct(20) { sa } else { rng.range(0, 18) as u8 };
    let p = *rng.pick(&PRIMES);
    // divisor / quantum: p * k, positive unless signed below
    let divisor = |rng: &mut Rng, max_d: u32| -> i128 {
        let k = if rng.pct(30) {
            1
        } else if rng.pct(20) && max_d >= 22 {
            // around the 32- and 64-bit boundaries
            let nb = *rng.pick(&[31i64, 32, 33, 62, 63, 64, 65]);
            bits(rng, nb)
        } else {
            coeff(rng, max_d.saturating_sub(2).max(1))
        };
        p * k
    };
    let op = match route {
        0 | 1 | 2 => {
            let s = rng.range(1, 18) as u8;
            let c = sign(last_nonzero(coeff(&mut rng, 36)), &mut rng);
            match route {
                0 | 1 => {
                    let n = if rng.pct(15) { rng.range(-12, -1) } else { rng.range(0, s as i64 - 1) } as i8;
                    if route == 0 {
                        Op::Round { a: (c, s), n }
                    } else {
                        Op::CheckedRound { a: (c, s), n }
                    }
                }
                _ => Op::Fmt {
                    a: (c, s),
                    var: rng.below(N_FMT_VARIANTS as u64) as u8,
                    w: rng.range(0, 30) as u8,
                    p: rng.range(0, s as i64 - 1) as u8,
                    pauses: vec![],
                    err_at: 0,
                    reent: false,
                },
            }
        }
        3 | 21 => {
            // a*b rounds to 18 digits when sa + sb > 18
            let sa = rng.range(1, 18) as u8;
            let sb = rng.range(19 - sa as i64, 18).max(1) as u8;
            let (da, db) = if route == 3 { (18, 18) } else { (30, 30) };
            let (a, b) = if rng.pct(35) { boundary_pair(&mut rng) } else { (coeff(&mut rng, da), coeff(&mut rng, db)) };
            let a = sign(coprime10(a), &mut rng);
            let b = sign(coprime10(b), &mut rng);
            Op::Mul { a: (a, sa), b: (b, sb), form: form5 }
        }
        4 => {
            let (sa, sb) = if sa as u32 + sb as u32 == 0 { (3, 0) } else { (sa, sb) };
            let n = rng.range(0, (sa as i64 + sb as i64 - 1).min(18)) as u8;
            let wide = rng.pct(40);
            let (a, b) = if rng.pct(35) {
                boundary_pair(&mut rng)
            } else {
                (coeff(&mut rng, if wide { 30 } else { 18 }), coeff(&mut rng, if wide { 30 } else { 18 }))
            };
            let a = sign(coprime10(a), &mut rng);
            let b = sign(coprime10(b), &mut rng);
            Op::MulRounded { a: (a, sa), b: (b, sb), n, form: form4 }
        }
        5 | 6 => {
            // `/` keeps 18 fractional digits
            let lt = if rng.pct(25) { late_terminating(&mut rng, (18 + sb as i64 - sa as i64).max(0), 36) } else { None };
            let (a, b) = match lt {
                Some(ab) => ab,
                None => (not_multiple(coeff(&mut rng, 36), p), divisor(&mut rng, 30)),
            };
            let b = sign(b, &mut rng);
            let a = sign(a, &mut rng);
            if route == 5 {
                Op::Div { a: (a, sa), b: (b, sb), form: form5 }
            } else {
                Op::CheckedDiv { a: (a, sa), b: (b, sb), form: form4 }
            }
        }
        7 | 9 => {
            let ty = int_for(&mut rng, false);
            let k = int_val(&mut rng, ty, 36) / p;
            let v = isign(ty, (k.max(1)) * p, &mut rng);
            let v = if ty.fits(v) { v } else { p };
            let a = not_multiple(coeff(&mut rng, 36), p);
            // `/` keeps 18 fractional digits
            let lt = if rng.pct(25) { pow2_int(&mut rng, (18 - sa as i64).max(0)) } else { None };
            let (ty, v, a) = match lt {
                Some((t, w)) => (t, isign(t, w, &mut rng), a | 1),
                None => (ty, v, a),
            };
            let a = sign(a, &mut rng);
            if route == 7 {
                Op::DivDI { a: (a, sa), i: Int { ty, v }, form: form5 }
            } else {
                Op::CheckedDivDI { a: (a, sa), i: Int { ty, v } }
            }
        }
        8 | 10 => {
            let ty = int_for(&mut rng, true);
            let v = isign(ty, not_multiple(int_val(&mut rng, ty, 36), p), &mut rng);
            let b = sign(divisor(&mut rng, 30), &mut rng);
            if route == 8 {
                Op::DivID { i: Int { ty, v }, b: (b, sb), form: form4 }
            } else {
                Op::CheckedDivID { i: Int { ty, v }, b: (b, sb) }
            }
        }
        11 => {
            // dividend scale <= n + divisor scale
            let n = rng.range((sa as i64 - sb as i64).max(0), 18) as u8;
            let b = sign(divisor(&mut rng, 30), &mut rng);
            let shift = n as u32 + sb as u32 - sa as u32;
            let a = if rng.pct(25) && shift <= 36 {
                // dividend * 10^shift straddles the i128 boundary
                let target = i128::MAX / p10(shift);
                let span = if shift == 0 { target / 2 } else { target };
                target / 2 + (((rng.next_u64() as u128) << 64 | rng.next_u64() as u128) % (span as u128)) as i128
            } else {
                coeff(&mut rng, 36)
            };
            let lt = if rng.pct(20) { late_terminating(&mut rng, shift as i64, 36) } else { None };
            let (a, b) = match lt {
                Some((x, y)) => (x, sign(y, &mut rng)),
                None => (not_multiple(a.max(1), p), b),
            };
            let a = sign(a, &mut rng);
            Op::DivRounded { a: (a, sa), b: (b, sb), n, form: form4 }
        }
        12 => {
            // divide first, round afterwards: a = b*k, k % 10 != 0, sa > n + sb
            let sa = rng.range(1, 18) as u8;
            let sb = rng.range(0, sa as i64 - 1) as u8;
            let n = rng.range(0, sa as i64 - sb as i64 - 1) as u8;
            let b = coeff(&mut rng, 17);
            let k = last_nonzero(coeff(&mut rng, 18));
            let sg = rng.pct(30);
            Op::DivRounded { a: (sign(b * k, &mut rng), sa), b: (if sg { -b } else { b }, sb), n, form: form4 }
        }
        13 => {
            let n = rng.range(sa as i64, 18) as u8;
            let ty = int_for(&mut rng, false);
            let k = int_val(&mut rng, ty, 36) / p;
            let v = isign(ty, k.max(1) * p, &mut rng);
            let v = if ty.fits(v) { v } else { p };
            let a = not_multiple(coeff(&mut rng, 36), p);
            let lt = if rng.pct(20) { pow2_int(&mut rng, n as i64 - sa as i64) } else { None };
            let (ty, v, a) = match lt {
                Some((t, w)) => (t, isign(t, w, &mut rng), a | 1),
                None => (ty, v, a),
            };
            let a = sign(a, &mut rng);
            Op::DivRoundedDI { a: (a, sa), i: Int { ty, v }, n, form: form4 }
        }
        14 => {
            let sa = rng.range(1, 18) as u8;
            let n = rng.range(0, sa as i64 - 1) as u8;
            let ty = int_for(&mut rng, false);
            let v = int_val(&mut rng, ty, 17);
            let k = last_nonzero(coeff(&mut rng, 18));
            let sg = isign(ty, v, &mut rng);
            Op::DivRoundedDI { a: (sign(v * k, &mut rng), sa), i: Int { ty, v: sg }, n, form: form4 }
        }
        15 => {
            let n = rng.range(0, 18) as u8;
            let ty = int_for(&mut rng, true);
            let v = isign(ty, not_multiple(int_val(&mut rng, ty, 36), p), &mut rng);
            let b = sign(divisor(&mut rng, 30), &mut rng);
            Op::DivRoundedID { i: Int { ty, v }, b: (b, sb), n, form: form4 }
        }
        16 => {
            let n = rng.range(0, 18) as u8;
            let ty = int_for(&mut rng, false);
            let k = int_val(&mut rng, ty, 36) / p;
            let j = isign(ty, k.max(1) * p, &mut rng);
            let j = if ty.fits(j) { j } else { p };
            let v = isign(ty, not_multiple(int_val(&mut rng, ty, 36), p), &mut rng);
            Op::DivRoundedII { i: Int { ty, v }, j, n, form: form4 }
        }
        17 => {
            // quantize = div_rounded(q, 0) * q: the same two branches
            if rng.pct(50) {
                let sa = sa.min(sb);
                let q = divisor(&mut rng, 18);
                let a = sign(not_multiple(coeff(&mut rng, 30), p), &mut rng);
                Op::Quantize { a: (a, sa), q: (q, sb), form: form4 }
            } else {
                let sa = rng.range(1, 18) as u8;
                let sb = rng.range(0, sa as i64 - 1) as u8;
                let q = coeff(&mut rng, 17);
                let k = last_nonzero(coeff(&mut rng, 18));
                Op::Quantize { a: (sign(q * k, &mut rng), sa), q: (q, sb), form: form4 }
            }
        }
        18 => {
            let ty = int_for(&mut rng, false);
            if rng.pct(50) {
                let k = int_val(&mut rng, ty, 18) / p;
                let v = k.max(1) * p;
                let v = if ty.fits(v) { v } else { p };
                let a = sign(not_multiple(coeff(&mut rng, 30), p), &mut rng);
                Op::QuantizeDI { a: (a, 0), i: Int { ty, v } }
            } else {
                let sa = rng.range(1, 18) as u8;
                let v = int_val(&mut rng, ty, 17);
                let k = last_nonzero(coeff(&mut rng, 18));
                Op::QuantizeDI { a: (sign(v * k, &mut rng), sa), i: Int { ty, v } }
            }
        }
        19 => {
            let ty = int_for(&mut rng, true);
            let v = isign(ty, not_multiple(int_val(&mut rng, ty, 30), p), &mut rng);
            let q = divisor(&mut rng, 18);
            Op::QuantizeID { i: Int { ty, v }, q: (q, sb) }
        }
        _ => {
            let ty = int_for(&mut rng, false);
            let k = int_val(&mut rng, ty, 18) / p;
            let j = k.max(1) * p;
            let j = if ty.fits(j) { j } else { p };
            let v = isign(ty, not_multiple(int_val(&mut rng, ty, 30), p), &mut rng);
            Op::QuantizeII { i: Int { ty, v }, j }
        }
    };
    (route, op)
}

/// Independent of the library: is the constructed call really inexact?  Only
/// a guard for the generator itself (checked for the routes where it is
/// cheap); never used to judge a result.
fn generator_ok(op: &Op) -> bool {
    let nz = |a: &Dec, drop: u32| drop >= 1 && a.0 % p10(drop.min(37)) != 0;
    match op {
        Op::Round { a, n } | Op::CheckedRound { a, n } => (*n as i64) < a.1 as i64 && nz(a, (a.1 as i64 - *n as i64) as u32),
        Op::Fmt { a, p, .. } => *p < a.1 && nz(a, (a.1 - *p) as u32),
        Op::Mul { a, b, .. } => a.1 + b.1 > 18 && a.0 % 2 != 0 && a.0 % 5 != 0 && b.0 % 2 != 0 && b.0 % 5 != 0,
        Op::MulRounded { a, b, n, .. } => {
            a.1 + b.1 > *n && a.0 % 2 != 0 && a.0 % 5 != 0 && b.0 % 2 != 0 && b.0 % 5 != 0
        }
        _ => true,
    }
}

pub struct ProbeFailure {
    pub idx: u64,
    pub detail: String,
}

#[derive(Default)]
pub struct ProbeReport {
    pub probes: u64,
    pub judged: u64,
    pub skipped: u64,
    pub evals: u64,
    pub per_route_judged: [u64; N_ROUTES],
    pub failures: Vec<ProbeFailure>,
}

fn value_of(o: &Outcome) -> Option<(i128, u32)> {
    crate::l2::value_of(o)
}

/// Runs probe `idx` on the calling thread.  `None` = not judged.
pub fn run_one(idx: u64, rep: &mut ProbeReport) {
    let (route, op) = probe_op(idx);
    rep.probes += 1;
    if !generator_ok(&op) {
        rep.failures.push(ProbeFailure { idx, detail: format!("GENERATOR BUG: `{}` is not inexact by construction", op.to_text()) });
        return;
    }
    let mut out: Vec<Option<Outcome>> = vec![None; 8];
    // back to back, starting mode rotating with the index
    for k in 0..8usize {
        let m = (k + idx as usize) % 8;
        RoundingMode::set_default(MODES[m]);
        out[m] = Some(exec_plain(&op));
        rep.evals += 1;
    }
    let v: Vec<Option<(i128, u32)>> = out.iter().map(|o| value_of(o.as_ref().unwrap())).collect();
    let mut judged = false;
    // (Ceiling, Floor), (Up, Down)
    for (hi, lo) in [(1usize, 3usize), (7, 2)] {
        if let (Some(a), Some(b)) = (v[hi], v[lo]) {
            match crate::l2::cmp_values(a, b) {
                Some(std::cmp::Ordering::Equal) => {
                    rep.failures.push(ProbeFailure {
                        idx,
                        detail: format!(
                            "`{}` has no exact result at the requested precision, yet under thread mode {} and under {} it returns the same value {} - the call does not use the calling thread's mode (route {})",
                            op.to_text(),
                            MODE_NAMES[hi],
                            MODE_NAMES[lo],
                            out[hi].as_ref().unwrap().show(),
                            ROUTE_NAMES[route]
                        ),
                    });
                    rep.judged += 1;
                    rep.per_route_judged[route] += 1;
                    return;
                }
                Some(_) => judged = true,
                None => {}
            }
        }
    }
    if judged {
        rep.judged += 1;
        rep.per_route_judged[route] += 1;
    } else {
        rep.skipped += 1;
    }
}

pub fn run_range(from: u64, to: u64) -> ProbeReport {
    let mut rep = ProbeReport::default();
    for i in from..to {
        run_one(i, &mut rep);
        if rep.failures.len() >= 20 {
            break;
        }
    }
    rep
}
