//! L2t — random TIE problems posed through every route (route agreement on
//! random values instead of the fixed witnesses of `l2.rs`).
//!
//! Problem `i`: the value V = ±(q + 1/2) units of the n-th fractional digit,
//! q random with 1..30 digits.  The same V is produced as the exact,
//! unrounded result of up to eleven different calls (round, checked_round,
//! Display, `*`, mul_rounded, three forms of div_rounded, `/`, quantize), each
//! of which must then round it at the same position.  Under each of the eight
//! thread modes every call picks the smaller or the larger neighbour; the
//! eight picks are the call's pattern.  Which pick is RIGHT is never judged
//! (that is the tie rule, property C05, and a defect of the shared kernel
//! shows in every route alike): a call is reported only if its pattern
//! differs from the pattern of the clear majority of the other calls for the
//! very same V - one route resolves this thread's mode differently from the
//! rest of the library.
use fpdec::RoundingMode;

use crate::ops::{exec_plain, Int, IntTy, Op, Outcome, MODES, MODE_NAMES, N_FMT_VARIANTS};
use crate::prng::Rng;

pub const TIE_BASE: u64 = 0xC19_71E5_0000_0001;

pub fn tie_ops(idx: u64) -> Vec<(&'static str, Op)> {
    let mut rng = Rng::from_seed(TIE_BASE ^ idx.wrapping_mul(0x9E37_79B9_7F4A_7C15));
    let d = rng.range(1, 30) as u32;
    // q = 0 (the value is half a unit) one time in ten
    let q = if rng.pct(10) { 0 } else { crate::probe::digits(&mut rng, d) };
    let d = if q == 0 { 1 } else { d };
    let sg: i128 = if rng.pct(50) { -1 } else { 1 };
    let odd = sg * (2 * q + 1);
    let n = rng.range(0, 12) as u8;
    let z = rng.range(0, 3) as u32;
    let form4 = rng.below(4) as u8;
    let form5 = rng.below(5) as u8;
    let mut v: Vec<(&'static str, Op)> = Vec::new();
    let a0 = (odd * 5 * 10i128.pow(z), n + 1 + z as u8);
    // round / checked_round pose the same tie (q + 1/2 units) at a position of
    // their own, half the time with many dropped digits and a negative n
    for name in ["round", "checked_round"] {
        let zr = if rng.pct(50) || d > 30 { z as i64 } else { rng.range(4, (33 - d as i64).max(4)) };
        let s = rng.range((zr + 1 - 12).max(0).min(18), 18);
        let nr = s - 1 - zr;
        let a = (odd * 5 * 10i128.pow(zr as u32), s as u8);
        if nr >= -12 && nr < s {
            v.push((name, if name == "round" { Op::Round { a, n: nr as i8 } } else { Op::CheckedRound { a, n: nr as i8 } }));
        }
    }
    v.push((
        "display",
        Op::Fmt { a: a0, var: rng.below(N_FMT_VARIANTS as u64) as u8, w: rng.range(0, 20) as u8, p: n, pauses: vec![], err_at: 0, reent: false },
    ));
    // mul_rounded: (2q+1) * 5*10^j, scales adding up to n+1+j
    {
        let j = rng.range(0, 2) as u32;
        let total = n as i64 + 1 + j as i64;
        let sa = rng.range((total - 18).max(0), total.min(18));
        let sb = total - sa;
        let (x, y) = if rng.pct(50) { (odd, 5 * 10i128.pow(j)) } else { (-odd, -5 * 10i128.pow(j)) };
        let (a, b) = ((x, sa as u8), (y, sb as u8));
        if rng.pct(50) {
            v.push(("mul_rounded", Op::MulRounded { a, b, n, form: form4 }));
        } else {
            v.push(("mul_rounded", Op::MulRounded { a: b, b: a, n, form: form4 }));
        }
    }
    // `*`: 19 fractional digits in the product, rounded to 18
    {
        let sa = rng.range(1, 18);
        let sb = 19 - sa;
        v.push(("mul", Op::Mul { a: (odd, sa as u8), b: (5, sb as u8), form: form5 }));
    }
    // div_rounded, dividend scale = n + divisor scale
    {
        let sb = rng.range(0, 18 - n as i64) as u8;
        let (x, y) = if rng.pct(50) { (odd, 2) } else { (-odd, -2) };
        v.push(("div_rounded", Op::DivRounded { a: (x, n + sb), b: (y, sb), n, form: form4 }));
    }
    // div_rounded, dividend has to be shifted: divisor 2*10^m
    {
        let m = rng.range(1, 3);
        let sb = rng.range(0, 6);
        let sa = n as i64 + sb - m;
        if (0..=18).contains(&sa) {
            v.push(("div_rounded/shifted", Op::DivRounded { a: (odd, sa as u8), b: (2 * 10i128.pow(m as u32), sb as u8), n, form: form4 }));
        }
    }
    // Decimal by native integer
    {
        let ty = crate::probe::int_for(&mut rng, false);
        let (x, y) = if ty.signed() && rng.pct(50) { (-odd, -2) } else { (odd, 2) };
        v.push(("div_rounded_di", Op::DivRoundedDI { a: (x, n), i: Int { ty, v: y }, n, form: form4 }));
    }
    if n == 0 {
        v.push(("div_rounded_ii", Op::DivRoundedII { i: Int { ty: IntTy::I128, v: odd }, j: 2, n: 0, form: form4 }));
    }
    // `/`: tie at the 18th digit
    v.push(("div", Op::Div { a: (odd, 18), b: (2, 0), form: form5 }));
    // quantize to multiples of 2 units
    {
        let s = rng.range(0, 18) as u8;
        v.push(("quantize", Op::Quantize { a: (odd, s), q: (2, s), form: form4 }));
    }
    v
}

pub struct TieFailure {
    pub idx: u64,
    pub detail: String,
}

#[derive(Default)]
pub struct TieReport {
    pub problems: u64,
    pub judged: u64,
    pub evals: u64,
    pub failures: Vec<TieFailure>,
}

pub fn run_one(idx: u64, rep: &mut TieReport) {
    let ops = tie_ops(idx);
    rep.problems += 1;
    let mut pats: Vec<Option<Vec<u8>>> = Vec::new();
    let mut outs: Vec<Vec<Outcome>> = Vec::new();
    for (_, op) in &ops {
        let mut rows: Vec<Vec<Outcome>> = vec![Vec::new(); 8];
        for k in 0..8usize {
            let m = (k + idx as usize) % 8;
            RoundingMode::set_default(MODES[m]);
            rows[m] = vec![exec_plain(op)];
            rep.evals += 1;
        }
        let p = crate::l2::pattern(&rows);
        // only calls that really offer two candidates take part
        let ok = p.iter().all(|c| *c == 0 || *c == 1);
        outs.push(rows.into_iter().map(|mut r| r.remove(0)).collect());
        pats.push(if ok { Some(p) } else { None });
    }
    let valid: Vec<usize> = (0..ops.len()).filter(|i| pats[*i].is_some()).collect();
    if valid.len() < 6 {
        return;
    }
    // majority pattern
    let mut best: (usize, Vec<u8>) = (0, Vec::new());
    for i in &valid {
        let p = pats[*i].as_ref().unwrap();
        let c = valid.iter().filter(|j| pats[**j].as_ref().unwrap() == p).count();
        if c > best.0 {
            best = (c, p.clone());
        }
    }
    // a CLEAR majority: all but at most two
    if best.0 + 2 < valid.len() {
        return;
    }
    rep.judged += 1;
    for i in &valid {
        let p = pats[*i].as_ref().unwrap();
        if *p != best.1 {
            let m = (0..8).find(|m| p[*m] != best.1[*m]).unwrap();
            rep.failures.push(TieFailure {
                idx,
                detail: format!(
                    "`{}` under thread mode {} returns {} - the {} of its two candidates; {} of the {} other calls that have to round the very same value (an exact tie) pick the {} one under {} (route {})",
                    ops[*i].1.to_text(),
                    MODE_NAMES[m],
                    outs[*i][m].show(),
                    if p[m] == 0 { "smaller" } else { "larger" },
                    best.0,
                    valid.len() - 1,
                    if best.1[m] == 0 { "smaller" } else { "larger" },
                    MODE_NAMES[m],
                    ops[*i].0
                ),
            });
            return;
        }
    }
}

pub fn run_range(from: u64, to: u64) -> TieReport {
    let mut rep = TieReport::default();
    for i in from..to {
        run_one(i, &mut rep);
        if rep.failures.len() >= 20 {
            break;
        }
    }
    rep
}
