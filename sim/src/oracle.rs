//! Oracles over the recorded history.
//!
//! L3 (differential, post-hoc): after every simulated thread has been joined,
//! each recorded rounding operation is executed again by the same real code on
//! a fresh OS thread as `set_default(model mode); op()`.  The outcomes must be
//! equal.  No arithmetic is ever recomputed by the harness, so an arithmetic
//! defect (or fix) in the library cannot raise a C19 alarm.
//!
//! Reach accounting: the reference also evaluates every operation under all
//! eight modes, which tells, per event, whether a *leak* (another live
//! thread's mode), a *stale* mode (the thread's previous one), *inheritance*
//! (the parent's mode at spawn) or a *process-global last-set mode* would have
//! changed the observable outcome.  Those counts are the honest measure of
//! how many chances a batch had to see each failure class.

use std::collections::BTreeSet;

use fpdec::RoundingMode;

use crate::engine::{dtor_ops, EvKind, Event, RunResult, Violation};
use crate::gen::N_KINDS;
use crate::ops::{
    exec_plain, Op, Outcome, HALF_EVEN, KIND_NAMES, MODES, MODE_NAMES,
};
use crate::prng::Fnv;

pub struct RefRow {
    pub under_model: Outcome,
    pub all: [Outcome; 8],
}

fn eval_item(op: &Op, model: u8) -> RefRow {
    // first the call the property talks about: the thread's own mode, set
    // explicitly, then the operation
    RoundingMode::set_default(MODES[model as usize]);
    let under_model = exec_plain(op);
    // then the same call under every mode (reach accounting only)
    let all: [Outcome; 8] = std::array::from_fn(|m| {
        RoundingMode::set_default(MODES[m]);
        exec_plain(op)
    });
    RefRow { under_model, all }
}

/// Evaluate `items` (operation, model mode) in isolation: on a fresh OS
/// thread that exists only now, when no simulated thread exists any more.
pub fn reference(
    items: Vec<(Op, u8)>,
    per_event: bool,
) -> Result<Vec<RefRow>, String> {
    if per_event {
        let mut rows = Vec::with_capacity(items.len());
        for (op, m) in items {
            let h = std::thread::spawn(move || eval_item(&op, m));
            rows.push(h.join().map_err(|_| "reference thread died")?);
        }
        Ok(rows)
    } else {
        let h = std::thread::spawn(move || {
            items.iter().map(|(op, m)| eval_item(op, *m)).collect::<Vec<_>>()
        });
        h.join().map_err(|_| "reference thread died".to_string())
    }
}

// ---------------------------------------------------------------------------

pub const FAULT_NAMES: [&str; 18] = [
    "caught_panic_in_op",
    "thread_crash",
    "exit_then_respawn",
    "spawn_from_nondefault_parent",
    "preempted_inside_display",
    "foreign_set_while_parked_in_display",
    "sink_error",
    "tls_destructor_probe",
    "stall_starve_one",
    "die_inside_display",
    "reentrant_access_from_sink",
    // hooks build only
    "preempted_at_library_scheduling_point",
    "foreign_op_while_parked_mid_operation",
    // threads created and ended by `churn` steps (thread-id / slot reuse)
    "short_lived_threads_churned",
    // `crowd` steps executed (many threads alive at the same time)
    "crowd_of_live_threads",
    // operations executed back-to-back inside `burst` steps (long single-thread histories)
    "burst_operations",
    // Display into a sink that itself calls set_default
    "set_default_from_inside_sink",
    // default() read by a Drop guard while the thread was unwinding out of a panicking operation
    "mode_read_while_unwinding",
];

#[derive(Clone, Default)]
pub struct Stats {
    pub runs: u64,
    pub fault_free_runs: u64,
    pub plan_steps: u64,
    pub events: u64,
    pub skipped: u64,
    pub n_set: u64,
    pub n_read: u64,
    pub n_op: u64,
    pub n_spawn: u64,
    pub n_exit: u64,
    pub n_die: u64,
    pub n_dtor: u64,
    pub n_paused: u64,
    pub op_kind: [u64; N_KINDS],
    pub faults: [u64; FAULT_NAMES.len()],
    pub l3_compared: u64,
    pub l1_checked: u64,
    pub ref_per_event_runs: u64,
    pub ref_process_runs: u64,
    pub ref_server_runs: u64,
    // events at which the named failure class WOULD have changed the outcome
    pub disc_leak_ops: u64,
    pub disc_leak_reads: u64,
    pub disc_stale_ops: u64,
    pub disc_stale_reads: u64,
    pub disc_inherit_ops: u64,
    pub disc_inherit_reads: u64,
    pub disc_global_ops: u64,
    pub disc_global_reads: u64,
    pub disc_inflight_ops: u64,
    pub disc_inflight_foreign_ops: u64,
    pub yield_points_passed: u64,
    pub mode_sensitive_ops: u64,
    /// [kind][own mode][other thread's mode] -> leak-discriminating events
    pub leak_pairs: Vec<u64>,
    pub personality: [u64; crate::gen::N_PERSONALITIES],
    pub max_live: u32,
    pub dtor_missing: u64,
    pub sched_hashes: BTreeSet<u64>,
    pub state_hashes: BTreeSet<u64>,
    pub nontrivial_hashes: BTreeSet<u64>,
    pub violations: u64,
}

impl Stats {
    pub fn new() -> Stats {
        Stats { leak_pairs: vec![0; N_KINDS * 64], ..Default::default() }
    }
}

pub struct Judged {
    pub violations: Vec<Violation>,
    pub nontrivial: bool,
}

fn modes_in(mask: u8) -> impl Iterator<Item = u8> {
    (0..8u8).filter(move |m| mask & (1 << m) != 0)
}

/// L3 + reach accounting for one finished run.  `stats` may be None (replay).
/// Out-of-process reference: `sim refeval` reads lines `<mode> <op text>`
/// and prints one outcome per line.  Nothing but the program text is shared
/// with the simulated execution.
pub fn refeval_main() -> Result<i32, String> {
    use std::io::BufRead;
    let stdin = std::io::stdin();
    let mut items: Vec<(Op, u8)> = Vec::new();
    for l in stdin.lock().lines() {
        let l = l.map_err(|e| e.to_string())?;
        let toks: Vec<&str> = l.split_whitespace().collect();
        if toks.is_empty() {
            continue;
        }
        let m = crate::ops::mode_from_name(toks[0]).ok_or("refeval: bad mode")?;
        items.push((Op::parse(&toks[1..])?, m));
    }
    // one fresh thread; each item: set the mode explicitly, then the call
    let outs = std::thread::spawn(move || {
        items
            .iter()
            .map(|(op, m)| {
                RoundingMode::set_default(MODES[*m as usize]);
                exec_plain(op).show()
            })
            .collect::<Vec<String>>()
    })
    .join()
    .map_err(|_| "refeval thread died".to_string())?;
    for o in outs {
        println!("{}", o.replace('\n', "\\n"));
    }
    Ok(0)
}

/// A long-lived reference process (`sim refserver`) of an in-process shard:
/// the verdict reference of every run is computed THERE, so that process-wide
/// state of the library (tables, memos, counters) is never shared between a
/// simulated execution and its reference.  The two processes have different
/// histories; that both come out wrong in the same way needs a coincidence.
pub struct RefServer {
    child: std::process::Child,
    to: std::io::BufWriter<std::process::ChildStdin>,
    from: std::io::BufReader<std::process::ChildStdout>,
}

impl RefServer {
    pub fn start() -> Result<RefServer, String> {
        use std::process::{Command, Stdio};
        let exe = std::env::current_exe().map_err(|e| e.to_string())?;
        let mut child = Command::new(exe)
            .arg("refserver")
            .stdin(Stdio::piped())
            .stdout(Stdio::piped())
            .stderr(Stdio::null())
            .spawn()
            .map_err(|e| format!("spawn refserver: {}", e))?;
        let to = std::io::BufWriter::new(child.stdin.take().ok_or("refserver stdin")?);
        let from = std::io::BufReader::new(child.stdout.take().ok_or("refserver stdout")?);
        Ok(RefServer { child, to, from })
    }

    pub fn eval(&mut self, items: &[(Op, u8)]) -> Result<Vec<String>, String> {
        use std::io::{BufRead, Write};
        let mut text = String::new();
        for (op, m) in items {
            text.push_str(MODE_NAMES[*m as usize]);
            text.push(' ');
            text.push_str(&op.to_text());
            text.push('\n');
        }
        text.push_str("END\n");
        self.to.write_all(text.as_bytes()).map_err(|e| format!("refserver write: {}", e))?;
        self.to.flush().map_err(|e| format!("refserver flush: {}", e))?;
        let mut out = Vec::with_capacity(items.len());
        loop {
            let mut line = String::new();
            let n = self.from.read_line(&mut line).map_err(|e| format!("refserver read: {}", e))?;
            if n == 0 {
                return Err("refserver ended unexpectedly".into());
            }
            let l = line.trim_end_matches('\n');
            if l == "END" {
                break;
            }
            out.push(l.to_string());
        }
        if out.len() != items.len() {
            return Err(format!("refserver: {} answers for {} items", out.len(), items.len()));
        }
        Ok(out)
    }
}

impl Drop for RefServer {
    fn drop(&mut self) {
        let _ = self.child.kill();
        let _ = self.child.wait();
    }
}

/// `sim refserver`: batches of `<mode> <op text>` lines terminated by `END`;
/// each batch is evaluated on a fresh thread and answered line by line.
pub fn refserver_main() -> Result<i32, String> {
    use std::io::{BufRead, Write};
    let stdin = std::io::stdin();
    let stdout = std::io::stdout();
    let mut items: Vec<(Op, u8)> = Vec::new();
    for l in stdin.lock().lines() {
        let l = l.map_err(|e| e.to_string())?;
        if l == "END" {
            let batch = std::mem::take(&mut items);
            let outs = std::thread::spawn(move || {
                batch
                    .iter()
                    .map(|(op, m)| {
                        RoundingMode::set_default(MODES[*m as usize]);
                        exec_plain(op).show()
                    })
                    .collect::<Vec<String>>()
            })
            .join()
            .map_err(|_| "refserver thread died".to_string())?;
            let mut o = stdout.lock();
            for x in outs {
                writeln!(o, "{}", x.replace('\n', "\\n")).map_err(|e| e.to_string())?;
            }
            writeln!(o, "END").map_err(|e| e.to_string())?;
            o.flush().map_err(|e| e.to_string())?;
            continue;
        }
        let toks: Vec<&str> = l.split_whitespace().collect();
        if toks.is_empty() {
            continue;
        }
        let m = crate::ops::mode_from_name(toks[0]).ok_or("refserver: bad mode")?;
        items.push((Op::parse(&toks[1..])?, m));
    }
    Ok(0)
}

fn reference_in_other_process(items: &[(Op, u8)]) -> Result<Vec<String>, String> {
    use std::io::Write;
    use std::process::{Command, Stdio};
    let exe = std::env::current_exe().map_err(|e| e.to_string())?;
    let mut child = Command::new(exe)
        .arg("refeval")
        .stdin(Stdio::piped())
        .stdout(Stdio::piped())
        .stderr(Stdio::piped())
        .spawn()
        .map_err(|e| format!("spawn refeval: {}", e))?;
    {
        let mut si = child.stdin.take().ok_or("refeval stdin")?;
        let mut text = String::new();
        for (op, m) in items {
            text.push_str(MODE_NAMES[*m as usize]);
            text.push(' ');
            text.push_str(&op.to_text());
            text.push('\n');
        }
        si.write_all(text.as_bytes()).map_err(|e| e.to_string())?;
    }
    let out = child.wait_with_output().map_err(|e| e.to_string())?;
    if !out.status.success() {
        return Err(format!(
            "refeval failed: {}",
            String::from_utf8_lossy(&out.stderr)
        ));
    }
    let lines: Vec<String> = String::from_utf8_lossy(&out.stdout)
        .lines()
        .map(|s| s.to_string())
        .collect();
    if lines.len() != items.len() {
        return Err(format!("refeval: {} answers for {} items", lines.len(), items.len()));
    }
    Ok(lines)
}

pub fn judge(
    res: &RunResult,
    per_event: bool,
    other_process: bool,
    server: Option<&mut RefServer>,
    stats: &mut Stats,
) -> Result<Judged, String> {
    // collect the operations to re-execute in isolation
    let mut items: Vec<(Op, u8)> = Vec::new();
    let mut owner: Vec<(usize, usize)> = Vec::new(); // (event index, slot) slot: 0 = op itself, 1.. = dtor op
    let dops = dtor_ops();
    for (ix, e) in res.events.iter().enumerate() {
        match &e.kind {
            EvKind::Op(op) | EvKind::Die(op) => {
                items.push((op.clone(), e.model_mode));
                owner.push((ix, 0));
            }
            EvKind::Dtor if !e.extra.is_empty() => {
                for (k, op) in dops.iter().enumerate() {
                    items.push((op.clone(), e.model_mode));
                    owner.push((ix, k + 1));
                }
            }
            _ => {}
        }
    }
    // verdict reference first (it must not see state left by anything else)
    // The reference process evaluates the calls in REVERSE history order:
    // a cache or memo inside the library that is keyed without the thread's
    // mode would otherwise see the same access pattern on both sides and make
    // both sides equally wrong (seeded change s19).  On correct code the
    // order cannot matter: every call is a function of (operands, mode).
    let reversed: Vec<(Op, u8)> = items.iter().rev().cloned().collect();
    let external: Option<Vec<String>> = if other_process && !items.is_empty() {
        stats.ref_process_runs += 1;
        let mut a = reference_in_other_process(&reversed)?;
        a.reverse();
        Some(a)
    } else if let (Some(srv), false) = (server, items.is_empty()) {
        stats.ref_server_runs += 1;
        let mut a = srv.eval(&reversed)?;
        a.reverse();
        Some(a)
    } else {
        None
    };
    let rows = reference(items, per_event)?;
    let mut violations: Vec<Violation> = res.violations.clone();
    let mut nontrivial = false;

    for (k, ((ix, slot), row)) in owner.iter().zip(rows.iter()).enumerate() {
        let e: &Event = &res.events[*ix];
        let (sim_out, what): (&Outcome, String) = if *slot == 0 {
            let k = match &e.kind {
                EvKind::Op(op) | EvKind::Die(op) => op.kind_name(),
                _ => unreachable!(),
            };
            (&e.outcome, k.to_string())
        } else {
            (&e.extra[*slot - 1], "dtor-op".to_string())
        };
        stats.l3_compared += 1;
        let (differs, ref_shown) = match &external {
            Some(ext) => (sim_out.show().replace('\n', "\\n") != ext[k], ext[k].clone()),
            None => (*sim_out != row.under_model, row.under_model.show()),
        };
        if differs {
            violations.push(Violation {
                layer: "L3",
                kind: what.clone(),
                seq: e.seq,
                step: e.step,
                detail: format!(
                    "T{} (own mode {}) got {} but the identical call made in \
                     isolation under {} gives {}{}",
                    e.tid,
                    MODE_NAMES[e.model_mode as usize],
                    sim_out.show(),
                    MODE_NAMES[e.model_mode as usize],
                    ref_shown,
                    explain(sim_out, &row.all)
                ),
            });
        }
        if *slot != 0 {
            continue;
        }
        // ---- reach accounting (operations)
        let own = &row.all[e.model_mode as usize];
        let kind = match &e.kind {
            EvKind::Op(op) | EvKind::Die(op) => op.kind(),
            _ => unreachable!(),
        };
        if row.all.iter().any(|o| o != own) {
            stats.mode_sensitive_ops += 1;
        }
        let mut leak = false;
        for m in modes_in(e.others_mask) {
            if row.all[m as usize] != *own {
                leak = true;
                stats.leak_pairs
                    [kind * 64 + (e.model_mode as usize) * 8 + m as usize] += 1;
            }
        }
        if leak {
            stats.disc_leak_ops += 1;
            nontrivial = true;
            if e.foreign_set_in_flight {
                stats.disc_inflight_ops += 1;
            }
            if e.foreign_op_in_flight {
                stats.disc_inflight_foreign_ops += 1;
            }
        }
        if let Some(p) = e.prev_mode {
            if row.all[p as usize] != *own {
                stats.disc_stale_ops += 1;
                nontrivial = true;
            }
        }
        if let Some(p) = e.inherit_mode {
            if row.all[p as usize] != row.all[HALF_EVEN as usize] {
                stats.disc_inherit_ops += 1;
                nontrivial = true;
            }
        }
        if let Some(g) = e.global_last {
            if row.all[g as usize] != *own {
                stats.disc_global_ops += 1;
            }
        }
    }

    // ---- reach accounting (reads) and plain counters
    for e in &res.events {
        stats.events += 1;
        let mut st = Fnv::default();
        st.u64(e.others_mask as u64);
        st.u64(e.model_mode as u64);
        st.u64(e.foreign_set_in_flight as u64);
        match &e.kind {
            EvKind::Read | EvKind::Dtor => {
                stats.l1_checked += 1;
                if matches!(e.kind, EvKind::Read) {
                    stats.n_read += 1;
                    st.u64(100);
                } else {
                    stats.n_dtor += 1;
                    stats.faults[7] += 1;
                    st.u64(101);
                }
                if e.others_mask & !(1 << e.model_mode) != 0 {
                    stats.disc_leak_reads += 1;
                    nontrivial = true;
                }
                if matches!(e.prev_mode, Some(p) if p != e.model_mode) {
                    stats.disc_stale_reads += 1;
                    nontrivial = true;
                }
                if matches!(e.inherit_mode, Some(p) if p != HALF_EVEN) {
                    stats.disc_inherit_reads += 1;
                    nontrivial = true;
                }
                if matches!(e.global_last, Some(g) if g != e.model_mode) {
                    stats.disc_global_reads += 1;
                }
            }
            EvKind::Set(_) => {
                stats.n_set += 1;
                st.u64(102);
            }
            EvKind::Spawn { .. } => {
                stats.n_spawn += 1;
                if e.tid != crate::plan::ALL && e.model_mode != HALF_EVEN {
                    stats.faults[3] += 1;
                }
                st.u64(103);
            }
            EvKind::Exit => {
                stats.n_exit += 1;
                st.u64(104);
            }
            EvKind::Paused(k) => {
                stats.n_paused += 1;
                if *k >= 1000 {
                    stats.faults[11] += 1;
                    st.u64(107);
                } else {
                    stats.faults[4] += 1;
                    st.u64(105);
                }
            }
            EvKind::Skip(_) => {
                stats.skipped += 1;
                st.u64(106);
            }
            EvKind::Op(op) | EvKind::Die(op) => {
                stats.n_op += 1;
                stats.op_kind[op.kind()] += 1;
                st.u64(op.kind() as u64);
                st.u64((e.sink.paused > 0) as u64);
                if e.outcome == Outcome::Panicked {
                    stats.faults[0] += 1;
                }
                if e.sink.err_fired {
                    stats.faults[6] += 1;
                }
                if let Op::FmtSet { .. } = op {
                    stats.faults[16] += 1;
                    stats.l1_checked += 1;
                }
                if e.sink.unwind_mode != 254 {
                    stats.faults[17] += 1;
                    stats.l1_checked += 1;
                }
                stats.yield_points_passed += e.sink.yhits as u64;
                if e.sink.n_reent > 0 {
                    stats.faults[10] += 1;
                    stats.l1_checked += e.sink.n_reent as u64;
                }
                if e.foreign_set_in_flight {
                    stats.faults[5] += 1;
                }
                if e.foreign_op_in_flight {
                    stats.faults[12] += 1;
                }
                st.u64((e.sink.ypaused > 0) as u64);
                st.u64(e.foreign_op_in_flight as u64);
                if let EvKind::Die(_) = e.kind {
                    stats.n_die += 1;
                    stats.faults[1] += 1;
                    if e.sink.paused > 0 {
                        stats.faults[9] += 1;
                    }
                }
            }
        }
        stats.state_hashes.insert(st.0);
    }
    stats.faults[2] += res.respawn_after_death as u64;
    stats.faults[13] += res.churned as u64;
    if res.crowded > 0 {
        stats.faults[14] += 1;
    }
    stats.faults[15] += res.burst_ops;
    stats.dtor_missing += res.dtor_missing as u64;
    stats.max_live = stats.max_live.max(res.max_live);
    Ok(Judged { violations, nontrivial })
}

/// If the wrong outcome equals what some other mode would have produced, say so.
fn explain(sim: &Outcome, all: &[Outcome; 8]) -> String {
    let ms: Vec<&str> = (0..8)
        .filter(|m| all[*m] == *sim)
        .map(|m| MODE_NAMES[m])
        .collect();
    if ms.is_empty() {
        " (no rounding mode produces the observed outcome in isolation)".into()
    } else {
        format!(" (the observed outcome is what mode(s) {} produce)", ms.join("/"))
    }
}

pub fn kind_name(k: usize) -> &'static str {
    KIND_NAMES[k]
}
