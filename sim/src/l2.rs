//! L2 — mode-sensitivity pre-pass (obligation O4: `set_default` DOES take
//! effect on the caller's own subsequent operations).
//!
//! For every operation family (kind × operand form × integer type) there is a
//! small fixed witness set built so that a correct library must separate
//! every pair of rounding modes on at least one witness.  The real operation
//! is run on one isolated thread under each of the 8 modes; the 8 result rows
//! must be pairwise different.  Rows are compared with EACH OTHER, never with
//! a computed number, so a wrong tie rule somewhere does not trip this check,
//! but "Display always rounds half-even" or "`*` latches the first mode it
//! saw" does.  Also checked here: a fresh thread reads HalfEven before any
//! set, and `default()` reads back every mode right after `set_default`.

use fpdec::RoundingMode;

use crate::ops::{
    exec_plain, mode_index, Int, IntTy, Op, Outcome, HALF_EVEN, INT_TYS,
    MODES, MODE_NAMES, N_FMT_VARIANTS,
};

/// w/10 under the eight modes separates all 28 pairs (see DESIGN §2.1).
pub const W: [i128; 12] = [25, 35, -25, -35, 23, -23, 27, -27, 53, -53, 103, -103];

pub struct Family {
    pub name: String,
    pub ops: Vec<Op>,
    /// Witness class.  Families are compared with the siblings of their own
    /// class only, because what a witness set CAN separate depends on it:
    /// `STD`  w/10 with a non-zero kept part, both signs: all 28 pairs;
    /// `NONNEG` unsigned÷unsigned can only produce non-negative results, where
    ///        Ceiling≡Up and Floor≡Down; those two pairs are exempt;
    /// `SUB`  the kept part is zero and ONE digit is dropped (0.05 to one
    ///        digit): the value is below the rounding quantum;
    /// `TINY` the kept part is zero and the value is below a tenth of the
    ///        quantum (0.001 to one digit): only the directed modes move it.
    /// `TAIL` q + ε and q + ½ ± ε with ε far below the digit that decides: what
///        a "the rest cannot matter" truncation before rounding gets wrong.
/// `GRE`  (7w ± 1)/70: the divisor-scaled branch of `div_rounded` with an
///        INEXACT inner division.  That branch truncates before it rounds
///        (DESIGN §4), which manufactures ties; its families are therefore
///        `judged_only`: they must tell apart what the exact routes tell apart
///        (they do, and would after a repair), but what they tell apart in
///        excess is not held against the others.
/// `THIRDS`, `NINTHS`  K + r/3 and K + r/9 on top of whatever integral part an
///        ORDINARY quotient has (1 / 0.03 = 33.33…): 10^x leaves remainder 1
///        modulo 3 and 9, so N·10^x / d has the fractional part (N mod d)/d
///        for any operand scales.  Unlike everywhere else the divisor has MORE
///        fractional digits than the dividend here and both coefficients are
///        small; no ties, and K never ends in 0 or 5.
/// The classes after NONNEG exist because "this is as good as zero" shortcuts are
    /// taken on exactly these inputs and are wrong for the directed modes.
    pub class: usize,
    /// Judged against its class, but neither counted as a sibling that "tells
    /// modes apart" nor held to route agreement (see `GRE`).
    pub judged_only: bool,
}

pub const STD: usize = 0;
pub const NONNEG: usize = 1;
pub const SUB: usize = 2;
pub const TINY: usize = 3;
/// Divisor classes: the value is c/d units of the last kept digit, for each
/// d of `DIVISORS` (class index `N_FIXED + position`).  Here the operation is
/// reached through every API route that can express c/d: what a route's rows
/// can separate depends on d (no ties for odd d, nothing but ties and exact
/// quotients for d = 2), so each d is a class of its own.
pub const DIVISORS: [i128; 11] = [2, 3, 4, 5, 6, 7, 8, 9, 16, 25, 125];
pub const TAIL: usize = 4;
pub const GRE: usize = 5;
pub const THIRDS: usize = 6;
pub const NINTHS: usize = 7;
pub const N_FIXED: usize = 8;
pub const N_CLASSES: usize = N_FIXED + DIVISORS.len();

/// w · 10^-(n+1) rounded to n digits
pub const W_SUB: [i128; 12] = [1, -1, 5, -5, 7, -7, 3, -3, 4, -4, 6, -6];
/// w · 10^-(n+3) rounded to n digits
pub const W_TINY: [i128; 12] = [1, -1, 5, -5, 49, -49, 3, -3, 7, -7, 99, -99];

fn fam(name: String, ops: Vec<Op>) -> Family {
    Family { name, ops, class: STD, judged_only: false }
}

pub fn families() -> Vec<Family> {
    let mut v: Vec<Family> = Vec::new();
    let each = |f: &dyn Fn(i128) -> Op| -> Vec<Op> { W.iter().map(|w| f(*w)).collect() };

    v.push(fam("round/n=0".into(), each(&|w| Op::Round { a: (w, 1), n: 0 })));
    v.push(fam("round/n=2".into(), each(&|w| Op::Round { a: (w, 3), n: 2 })));
    v.push(fam("round/n=-1".into(), each(&|w| Op::Round { a: (w, 0), n: -1 })));
    v.push(fam("round/n=17".into(), each(&|w| Op::Round { a: (w, 18), n: 17 })));
    v.push(fam("checked_round/n=0".into(), each(&|w| Op::CheckedRound { a: (w, 1), n: 0 })));
    v.push(fam("checked_round/n=-1".into(), each(&|w| Op::CheckedRound { a: (w, 0), n: -1 })));
    for f in 0..5u8 {
        v.push(fam(format!("mul/form{}", f), each(&|w| Op::Mul { a: (w, 10), b: (1, 9), form: f })));
        v.push(fam(format!("mul/swapped/form{}", f), each(&|w| Op::Mul { a: (1, 9), b: (w, 10), form: f })));
        v.push(fam(format!("div/form{}", f), each(&|w| Op::Div { a: (w, 18), b: (10, 0), form: f })));
    }
    for f in 0..4u8 {
        v.push(fam(format!("checked_div/form{}", f), each(&|w| Op::CheckedDiv { a: (w, 18), b: (10, 0), form: f })));
        v.push(fam(format!("mul_rounded/form{}", f), each(&|w| Op::MulRounded { a: (w, 1), b: (1, 0), n: 0, form: f })));
        v.push(fam(format!("mul_rounded/n=3/form{}", f), each(&|w| Op::MulRounded { a: (w, 2), b: (1, 2), n: 3, form: f })));
        v.push(fam(format!("div_rounded/greater/form{}", f), each(&|w| Op::DivRounded { a: (w, 1), b: (1, 0), n: 0, form: f })));
        v.push(fam(format!("div_rounded/equal/form{}", f), each(&|w| Op::DivRounded { a: (w, 0), b: (10, 0), n: 0, form: f })));
        v.push(fam(format!("div_rounded/less/form{}", f), each(&|w| Op::DivRounded { a: (w, 0), b: (1000, 0), n: 2, form: f })));
        v.push(fam(format!("quantize/form{}", f), each(&|w| Op::Quantize { a: (w, 0), q: (10, 0), form: f })));
        v.push(fam(format!("quantize/frac/form{}", f), each(&|w| Op::Quantize { a: (w, 3), q: (1, 2), form: f })));
    }
    // the 256-bit paths (product / shifted dividend exceeds i128): the value
    // is Q + w/10 with a huge Q, so the same witnesses decide the rounding
    let big30 = 10i128.pow(30);
    let big22 = 10i128.pow(22);
    let wide = |w: i128, base: i128| if w < 0 { -(base + w.abs()) } else { base + w };
    for f in 0..4u8 {
        v.push(fam(format!("mul/wide/form{}", f), each(&|w| Op::Mul { a: (wide(w, big30), 18), b: (10i128.pow(9), 10), form: f })));
        v.push(fam(format!("mul_rounded/wide/form{}", f), each(&|w| Op::MulRounded { a: (wide(w, big30), 18), b: (10i128.pow(9), 10), n: 18, form: f })));
        v.push(fam(format!("div/wide/form{}", f), each(&|w| Op::Div { a: (wide(w, big22), 0), b: (10i128.pow(19), 0), form: f })));
        v.push(fam(format!("checked_div/wide/form{}", f), each(&|w| Op::CheckedDiv { a: (wide(w, big22), 0), b: (10i128.pow(19), 0), form: f })));
        v.push(fam(format!("div_rounded/wide/form{}", f), each(&|w| Op::DivRounded { a: (wide(w, big22), 0), b: (10i128.pow(19), 0), n: 18, form: f })));
    }
    v.push(fam("div_di/wide/i128".into(), each(&|w| Op::DivDI { a: (wide(w, big22), 0), i: Int { ty: IntTy::I128, v: 10i128.pow(19) }, form: 0 })));
    v.push(fam("div_id/wide/i128".into(), each(&|w| Op::DivID { i: Int { ty: IntTy::I128, v: wide(w, big22) }, b: (10i128.pow(19), 0), form: 0 })));
    v.push(fam("div_rounded_di/wide/i128".into(), each(&|w| Op::DivRoundedDI { a: (wide(w, big22), 0), i: Int { ty: IntTy::I128, v: 10i128.pow(19) }, n: 18, form: 0 })));
    for ty in INT_TYS {
        let i10 = Int { ty, v: 10 };
        let i1 = Int { ty, v: 1 };
        for f in 0..5u8 {
            v.push(fam(format!("div_di/{}/form{}", ty.name(), f), each(&|w| Op::DivDI { a: (w, 18), i: i10, form: f })));
        }
        v.push(fam(format!("checked_div_di/{}", ty.name()), each(&|w| Op::CheckedDivDI { a: (w, 18), i: i10 })));
        v.push(fam(format!("quantize_di/{}", ty.name()), each(&|w| Op::QuantizeDI { a: (w, 0), i: i10 })));
        // int on the left: the dividend carries |w|, the Decimal carries the sign
        let sgn = |w: i128| if w < 0 { -1i128 } else { 1 };
        v.push(fam(format!("checked_div_id/{}", ty.name()), each(&|w| Op::CheckedDivID {
            i: Int { ty, v: w.abs() }, b: (sgn(w) * 10i128.pow(19), 0) })));
        // (a negative quantum would make it a different rounding problem:
        // round(-w/10) * -10, so the sign stays with the integer here)
        if ty.signed() {
            v.push(fam(format!("quantize_id/{}", ty.name()), each(&|w| Op::QuantizeID { i: Int { ty, v: w }, q: (10, 0) })));
        } else {
            let ops: Vec<Op> = W.iter().filter(|w| **w > 0).map(|w| Op::QuantizeID { i: Int { ty, v: *w }, q: (10, 0) }).collect();
            v.push(Family { name: format!("quantize_id/{}", ty.name()), ops, class: NONNEG, judged_only: false });
        }
        for f in 0..4u8 {
            v.push(fam(format!("div_id/{}/form{}", ty.name(), f), each(&|w| Op::DivID {
                i: Int { ty, v: w.abs() }, b: (sgn(w) * 10i128.pow(19), 0), form: f })));
            v.push(fam(format!("div_rounded_di/greater/{}/form{}", ty.name(), f), each(&|w| Op::DivRoundedDI { a: (w, 1), i: i1, n: 0, form: f })));
            v.push(fam(format!("div_rounded_di/equal/{}/form{}", ty.name(), f), each(&|w| Op::DivRoundedDI { a: (w, 0), i: i10, n: 0, form: f })));
            v.push(fam(format!("div_rounded_id/{}/form{}", ty.name(), f), each(&|w| Op::DivRoundedID {
                i: Int { ty, v: w.abs() }, b: (sgn(w) * 10, 0), n: 0, form: f })));
            if ty.signed() {
                v.push(fam(format!("div_rounded_ii/{}/form{}", ty.name(), f), each(&|w| Op::DivRoundedII { i: Int { ty, v: w }, j: 10, n: 0, form: f })));
            } else {
                let ops: Vec<Op> = W.iter().filter(|w| **w > 0).map(|w| Op::DivRoundedII { i: Int { ty, v: *w }, j: 10, n: 0, form: f }).collect();
                v.push(Family { name: format!("div_rounded_ii/{}/form{}", ty.name(), f), ops, class: NONNEG, judged_only: false });
            }
        }
        if ty.signed() {
            v.push(fam(format!("quantize_ii/{}", ty.name()), each(&|w| Op::QuantizeII { i: Int { ty, v: w }, j: 10 })));
        } else {
            let ops: Vec<Op> = W.iter().filter(|w| **w > 0).map(|w| Op::QuantizeII { i: Int { ty, v: *w }, j: 10 }).collect();
            v.push(Family { name: format!("quantize_ii/{}", ty.name()), ops, class: NONNEG, judged_only: false });
        }
    }
    for var in 0..N_FMT_VARIANTS {
        v.push(fam(format!("display/variant{}/p=0", var), each(&|w| Op::Fmt { a: (w, 1), var, w: 8, p: 0, pauses: vec![], err_at: 0, reent: false })));
        v.push(fam(format!("display/variant{}/p=2", var), each(&|w| Op::Fmt { a: (w, 3), var, w: 3, p: 2, pauses: vec![], err_at: 0, reent: false })));
    }
    // the same values w/10 with sixteen more (zero) digits to drop
    let deep = |w: i128| (w * 10i128.pow(16), 17u8);
    v.push(fam("round/deep".into(), each(&|w| Op::Round { a: deep(w), n: 0 })));
    v.push(fam("checked_round/deep".into(), each(&|w| Op::CheckedRound { a: deep(w), n: 0 })));
    v.push(fam("quantize/deep".into(), each(&|w| Op::Quantize { a: deep(w), q: (1, 0), form: 0 })));
    v.push(fam("mul_rounded/deep".into(), each(&|w| Op::MulRounded { a: deep(w), b: (1, 0), n: 0, form: 0 })));
    v.push(fam("div_rounded/deep".into(), each(&|w| Op::DivRounded { a: deep(w), b: (1, 0), n: 0, form: 0 })));
    v.push(fam("display/deep".into(), each(&|w| Op::Fmt { a: deep(w), var: 0, w: 0, p: 0, pauses: vec![], err_at: 0, reent: false })));
    // more shapes of the same w/10: long shifts, coefficients beyond 64 bits,
    // the dividend-shifted branch of `/`, divisors that are no power of ten
    v.push(fam("round/deep19".into(), each(&|w| Op::Round { a: (w * 10i128.pow(18), 18), n: -1 })));
    v.push(fam("round/deep36".into(), each(&|w| Op::Round { a: (w * 10i128.pow(35), 18), n: -18 })));
    v.push(fam("checked_round/deep19".into(), each(&|w| Op::CheckedRound { a: (w * 10i128.pow(18), 18), n: -1 })));
    v.push(fam("checked_round/deep36".into(), each(&|w| Op::CheckedRound { a: (w * 10i128.pow(35), 18), n: -18 })));
    let big = |w: i128| (wide(w, big30), 1u8);
    v.push(fam("round/big".into(), each(&|w| Op::Round { a: big(w), n: 0 })));
    v.push(fam("checked_round/big".into(), each(&|w| Op::CheckedRound { a: big(w), n: 0 })));
    v.push(fam("quantize/big".into(), each(&|w| Op::Quantize { a: big(w), q: (1, 0), form: 0 })));
    v.push(fam("mul_rounded/big".into(), each(&|w| Op::MulRounded { a: big(w), b: (1, 0), n: 0, form: 0 })));
    v.push(fam("div_rounded/big".into(), each(&|w| Op::DivRounded { a: big(w), b: (1, 0), n: 0, form: 0 })));
    v.push(fam("display/big".into(), each(&|w| Op::Fmt { a: big(w), var: 0, w: 0, p: 0, pauses: vec![], err_at: 0, reent: false })));
    for f in 0..5u8 {
        v.push(fam(format!("div/shifted/form{}", f), each(&|w| Op::Div { a: (w, 0), b: (10i128.pow(19), 0), form: f })));
        v.push(fam(format!("div/npot/form{}", f), each(&|w| Op::Div { a: (2 * w, 18), b: (20, 0), form: f })));
        v.push(fam(format!("mul/deep/form{}", f), each(&|w| Op::Mul { a: (w * 10i128.pow(16), 18), b: (1, 17), form: f })));
    }
    for f in 0..4u8 {
        v.push(fam(format!("checked_div/shifted/form{}", f), each(&|w| Op::CheckedDiv { a: (w, 0), b: (10i128.pow(19), 0), form: f })));
        v.push(fam(format!("checked_div/npot/form{}", f), each(&|w| Op::CheckedDiv { a: (2 * w, 18), b: (20, 0), form: f })));
        v.push(fam(format!("mul_rounded/deep/n=3/form{}", f), each(&|w| Op::MulRounded { a: (w * 10i128.pow(10), 12), b: (1, 2), n: 3, form: f })));
        v.push(fam(format!("div_rounded/npot/equal/form{}", f), each(&|w| Op::DivRounded { a: (2 * w, 0), b: (20, 0), n: 0, form: f })));
        v.push(fam(format!("div_rounded/npot/fracdiv/form{}", f), each(&|w| Op::DivRounded { a: (2 * w, 1), b: (20, 1), n: 0, form: f })));
        v.push(fam(format!("div_rounded/npot/less/form{}", f), each(&|w| Op::DivRounded { a: (2 * w, 0), b: (2000, 0), n: 2, form: f })));
        v.push(fam(format!("div_rounded/npot/greater/form{}", f), each(&|w| Op::DivRounded { a: (2 * w, 1), b: (2, 0), n: 0, form: f })));
    }
    for ty in INT_TYS {
        let i20 = Int { ty, v: 20 };
        v.push(fam(format!("div_di/npot/{}", ty.name()), each(&|w| Op::DivDI { a: (2 * w, 18), i: i20, form: 0 })));
        v.push(fam(format!("div_rounded_di/npot/{}", ty.name()), each(&|w| Op::DivRoundedDI { a: (2 * w, 0), i: i20, n: 0, form: 0 })));
    }
    // values below the rounding quantum
    for (class, cname, ws, t) in [(SUB, "sub", W_SUB, 1u8), (TINY, "tiny", W_TINY, 3u8)] {
        let mut push = |name: String, f: &dyn Fn(i128) -> Op| {
            v.push(Family { name, ops: ws.iter().map(|w| f(*w)).collect(), class, judged_only: false });
        };
        let p10 = 10i128.pow(t as u32);
        for n in [0i8, 2, -1] {
            let nf = (n + t as i8) as u8;
            push(format!("round/{}/n={}", cname, n), &|w| Op::Round { a: (w, nf), n });
            push(format!("checked_round/{}/n={}", cname, n), &|w| Op::CheckedRound { a: (w, nf), n });
        }
        for f in 0..4u8 {
            push(format!("mul_rounded/{}/form{}", cname, f), &|w| Op::MulRounded { a: (w, t + 1), b: (1, 0), n: 1, form: f });
            push(format!("div_rounded/{}/greater/form{}", cname, f), &|w| Op::DivRounded { a: (w, t + 1), b: (1, 0), n: 1, form: f });
            push(format!("div_rounded/{}/less/form{}", cname, f), &|w| Op::DivRounded { a: (w, 0), b: (p10 * 10, 0), n: 1, form: f });
            push(format!("quantize/{}/form{}", cname, f), &|w| Op::Quantize { a: (w, t + 1), q: (1, 1), form: f });
            push(format!("checked_div/{}/form{}", cname, f), &|w| Op::CheckedDiv { a: (w, 18), b: (p10, 0), form: f });
        }
        for f in 0..5u8 {
            push(format!("mul/{}/form{}", cname, f), &|w| Op::Mul { a: (w, 18), b: (1, t), form: f });
            push(format!("div/{}/form{}", cname, f), &|w| Op::Div { a: (w, 18), b: (p10, 0), form: f });
        }
        for ty in [IntTy::I32, IntTy::U64, IntTy::I128] {
            push(format!("div_di/{}/{}", cname, ty.name()), &|w| Op::DivDI { a: (w, 18), i: Int { ty, v: p10 }, form: 0 });
            // (a: (w, t-1), i: 10 would take the divisor-scaled branch with an
            // inexact inner division: the known double rounding, DESIGN §4)
            push(format!("div_rounded_di/{}/{}", cname, ty.name()), &|w| Op::DivRoundedDI { a: (w, 0), i: Int { ty, v: p10 }, n: 0, form: 0 });
        }
        for var in 0..N_FMT_VARIANTS {
            push(format!("display/{}/variant{}/p=1", cname, var), &|w| Op::Fmt { a: (w, t + 1), var, w: 0, p: 1, pauses: vec![], err_at: 0, reent: false });
        }
    }
    // negative divisors: (-w) / (-10) is the same w/10
    for f in 0..5u8 {
        v.push(fam(format!("div/negdiv/form{}", f), each(&|w| Op::Div { a: (-w, 18), b: (-10, 0), form: f })));
    }
    for f in 0..4u8 {
        v.push(fam(format!("checked_div/negdiv/form{}", f), each(&|w| Op::CheckedDiv { a: (-w, 18), b: (-10, 0), form: f })));
        v.push(fam(format!("div_rounded/negdiv/equal/form{}", f), each(&|w| Op::DivRounded { a: (-w, 0), b: (-10, 0), n: 0, form: f })));
        v.push(fam(format!("div_rounded/negdiv/less/form{}", f), each(&|w| Op::DivRounded { a: (-w, 0), b: (-1000, 0), n: 2, form: f })));
    }
    for ty in INT_TYS {
        if ty.signed() {
            let m10 = Int { ty, v: -10 };
            v.push(fam(format!("div_di/negdiv/{}", ty.name()), each(&|w| Op::DivDI { a: (-w, 18), i: m10, form: 0 })));
            v.push(fam(format!("checked_div_di/negdiv/{}", ty.name()), each(&|w| Op::CheckedDivDI { a: (-w, 18), i: m10 })));
            v.push(fam(format!("div_rounded_di/negdiv/{}", ty.name()), each(&|w| Op::DivRoundedDI { a: (-w, 0), i: m10, n: 0, form: 0 })));
            v.push(fam(format!("div_rounded_ii/negdiv/{}", ty.name()), each(&|w| Op::DivRoundedII { i: Int { ty, v: -w }, j: -10, n: 0, form: 0 })));
            // the non-negative witnesses through signed and Decimal routes:
            // siblings for the unsigned families
            let pos: Vec<i128> = W.iter().copied().filter(|w| *w > 0).collect();
            v.push(Family { name: format!("div_rounded_ii/pos/{}", ty.name()), ops: pos.iter().map(|w| Op::DivRoundedII { i: Int { ty, v: *w }, j: 10, n: 0, form: 0 }).collect(), class: NONNEG, judged_only: false });
            v.push(Family { name: format!("quantize_ii/pos/{}", ty.name()), ops: pos.iter().map(|w| Op::QuantizeII { i: Int { ty, v: *w }, j: 10 }).collect(), class: NONNEG, judged_only: false });
        }
    }
    {
        let pos: Vec<i128> = W.iter().copied().filter(|w| *w > 0).collect();
        v.push(Family { name: "round/pos".into(), ops: pos.iter().map(|w| Op::Round { a: (*w, 1), n: 0 }).collect(), class: NONNEG, judged_only: false });
        v.push(Family { name: "div_rounded/pos".into(), ops: pos.iter().map(|w| Op::DivRounded { a: (*w, 0), b: (10, 0), n: 0, form: 0 }).collect(), class: NONNEG, judged_only: false });
        v.push(Family { name: "quantize/pos".into(), ops: pos.iter().map(|w| Op::Quantize { a: (*w, 0), q: (10, 0), form: 0 }).collect(), class: NONNEG, judged_only: false });
    }
    tail_families(&mut v);
    shape_families(&mut v);
    for (class, dv, ns) in [(THIRDS, 3i128, vec![1i128, -1, 2, -2]), (NINTHS, 9, vec![1, -1, 2, -2, 4, -4, 5, -5, 7, -7, 8, -8])] {
        let mut push = |name: String, f: &dyn Fn(i128) -> Op| {
            v.push(Family { name, ops: ns.iter().map(|n| f(*n)).collect(), class, judged_only: false });
        };
        // (dividend scale, divisor scale, dividend multiplier 10^m)
        for (sa, sb, m) in [(0u8, 0u8, 0u32), (0, 2, 0), (1, 4, 0), (0, 7, 1), (3, 3, 2), (5, 2, 0), (18, 0, 0), (2, 18, 0), (0, 1, 3)] {
            let mm = 10i128.pow(m);
            let tag = format!("by{}/sa{}sb{}m{}", dv, sa, sb, m);
            for f in 0..4u8 {
                push(format!("div/{}/form{}", tag, f), &|n| Op::Div { a: (n * mm, sa), b: (dv, sb), form: f });
                push(format!("checked_div/{}/form{}", tag, f), &|n| Op::CheckedDiv { a: (n * mm, sa), b: (dv, sb), form: f });
                push(format!("div/{}/negdiv/form{}", tag, f), &|n| Op::Div { a: (-n * mm, sa), b: (-dv, sb), form: f });
                push(format!("checked_div/{}/negdiv/form{}", tag, f), &|n| Op::CheckedDiv { a: (-n * mm, sa), b: (-dv, sb), form: f });
            }
            // div_rounded: not through the divisor-scaled branch (sa <= n + sb)
            for n in [0u8, 2, 5, 18] {
                if sa <= n + sb && (n as i32 + sb as i32 - sa as i32) <= 30 {
                    push(format!("div_rounded/{}/n={}", tag, n), &|x| Op::DivRounded { a: (x * mm, sa), b: (dv, sb), n, form: 0 });
                    push(format!("div_rounded/{}/negdiv/n={}", tag, n), &|x| Op::DivRounded { a: (-x * mm, sa), b: (-dv, sb), n, form: 1 });
                }
            }
            if sb == 0 {
                for ty in INT_TYS {
                    push(format!("div_di/{}/{}", tag, ty.name()), &|n| Op::DivDI { a: (n * mm, sa), i: Int { ty, v: dv }, form: 0 });
                    push(format!("checked_div_di/{}/{}", tag, ty.name()), &|n| Op::CheckedDivDI { a: (n * mm, sa), i: Int { ty, v: dv } });
                    push(format!("div_rounded_di/{}/{}", tag, ty.name()), &|n| Op::DivRoundedDI { a: (n * mm, sa), i: Int { ty, v: dv }, n: sa.max(1), form: 0 });
                }
            }
            if sa == 0 {
                for ty in INT_TYS {
                    if ty.signed() {
                        push(format!("div_id/{}/{}", tag, ty.name()), &|n| Op::DivID { i: Int { ty, v: n * mm.min(10) }, b: (dv, sb), form: 0 });
                        push(format!("checked_div_id/{}/{}", tag, ty.name()), &|n| Op::CheckedDivID { i: Int { ty, v: n * mm.min(10) }, b: (dv, sb) });
                    }
                }
            }
        }
    }
    {
        let cs: Vec<i128> = W.iter().map(|w| 7 * w + w.signum()).collect();
        let mut push = |name: String, judged_only: bool, f: &dyn Fn(i128) -> Op| {
            v.push(Family { name, ops: cs.iter().map(|c| f(*c)).collect(), class: GRE, judged_only });
        };
        for f in 0..4u8 {
            push(format!("div_rounded/by70/equal/form{}", f), false, &|c| Op::DivRounded { a: (c, 0), b: (70, 0), n: 0, form: f });
            push(format!("div_rounded/by70/less/form{}", f), false, &|c| Op::DivRounded { a: (c, 0), b: (7000, 0), n: 2, form: f });
            push(format!("checked_div/by70/form{}", f), false, &|c| Op::CheckedDiv { a: (c, 18), b: (70, 0), form: f });
            push(format!("div_rounded/by7/scaled/n=0/form{}", f), true, &|c| Op::DivRounded { a: (c, 1), b: (7, 0), n: 0, form: f });
            push(format!("div_rounded/by7/scaled/n=2/form{}", f), true, &|c| Op::DivRounded { a: (c, 3), b: (7, 0), n: 2, form: f });
            push(format!("div_rounded/by0.7/scaled/form{}", f), true, &|c| Op::DivRounded { a: (c, 2), b: (7, 1), n: 0, form: f });
        }
        for f in 0..5u8 {
            push(format!("div/by70/form{}", f), false, &|c| Op::Div { a: (c, 18), b: (70, 0), form: f });
        }
        for ty in INT_TYS {
            push(format!("div_di/by70/{}", ty.name()), false, &|c| Op::DivDI { a: (c, 18), i: Int { ty, v: 70 }, form: 0 });
            push(format!("div_rounded_di/by70/{}", ty.name()), false, &|c| Op::DivRoundedDI { a: (c, 0), i: Int { ty, v: 70 }, n: 0, form: 0 });
            for f in 0..4u8 {
                push(format!("div_rounded_di/by7/scaled/{}/form{}", ty.name(), f), true, &|c| Op::DivRoundedDI { a: (c, 1), i: Int { ty, v: 7 }, n: 0, form: f });
            }
        }
    }
    for (di, dv) in DIVISORS.iter().enumerate() {
        divisor_families(&mut v, N_FIXED + di, *dv);
    }
    v
}

/// Operand SHAPES drawn from a fixed stream (part of the check's definition,
/// not of VERIF_SEED): the same twelve values w/10, optionally on top of a
/// huge multiple of ten, through every kind of route with random numbers of
/// fractional digits on both operands, random target precision, a random
/// common factor in dividend and divisor (3, 7, 11, 13 … - the divisor need
/// not be a power of ten), both operands negated, random integer types and
/// reference forms, factor pairs 2·5, 4·25, 8·125 for products, random
/// trailing zeros, every Display flag variant.  All in class STD.  What the
/// hand-written families pin down one at a time (the dividend has fewer digits
/// than the divisor; the coefficient exceeds 64 bits AND n equals its scale;
/// …) this covers by the hundred.
pub const N_SHAPES: usize = 640;

fn shape_families(v: &mut Vec<Family>) {
    use crate::prng::Rng;
    let mut rng = Rng::from_seed(0x5EED_C19_5A9E5);
    let p10 = |k: i64| -> Option<i128> { if (0..=37).contains(&k) { Some(10i128.pow(k as u32)) } else { None } };
    let mut made = 0usize;
    let mut attempts = 0usize;
    while made < N_SHAPES && attempts < 40 * N_SHAPES {
        attempts += 1;
        let route = made % 16;
        let k_off: i128 = if rng.pct(50) { 0 } else if rng.pct(50) { 10i128.pow(rng.range(19, 24) as u32) } else { 10i128.pow(rng.range(5, 18) as u32) };
        // tenths: T(w) = ±(10·K + |w|)
        let t_of = |w: i128| -> i128 { if w < 0 { -(10 * k_off + w.abs()) } else { 10 * k_off + w } };
        let tmax = 10 * k_off + 103;
        let big = k_off != 0;
        let sigma: i128 = if rng.pct(35) { -1 } else { 1 };
        let beta: i128 = *rng.pick(&[1i128, 1, 2, 3, 4, 5, 7, 8, 9, 11, 13, 25, 125]);
        let sa = rng.range(0, 18);
        // equal scales are a special case somebody will special-case
        let sb = if rng.pct(20) { sa } else { rng.range(0, 18) };
        let n_eq_sa = rng.pct(30);
        let form4 = rng.below(4) as u8;
        let form5 = rng.below(5) as u8;
        let tag = |r: &str| format!("shape/{}/{}{}", made, r, if big { "/big" } else { "" });
        let lim = 10i128.pow(36);
        let each = |f: &dyn Fn(i128) -> Op| -> Vec<Op> { W.iter().map(|w| f(*w)).collect() };
        let int_ty = |rng: &mut Rng, lo: i128, hi: i128, signed_only: bool| -> Option<IntTy> {
            let c: Vec<IntTy> = INT_TYS.iter().copied().filter(|t| t.fits(lo) && t.fits(hi) && (!signed_only || t.signed())).collect();
            if c.is_empty() { None } else { Some(*rng.pick(&c)) }
        };
        let fam_opt: Option<(String, Vec<Op>)> = match route {
            // ---- division routes: A/B = T / 10^t, t = n + sb - sa + 1
            0..=8 => {
                let (sa, sb) = match route { 3 | 4 | 5 => (sa, 0), 6 | 7 => (0, sb), 8 => (0, 0), _ => (sa, sb) };
                let n: i64 = match route { 0 | 1 | 3 | 4 | 6 => 18, 8 => rng.range(0, 3), _ => if n_eq_sa { sa } else { rng.range(0, 18) } };
                let t = n + sb - sa + 1;
                let (am, b) = if t >= 0 { (Some(beta), p10(t).and_then(|p| beta.checked_mul(p))) } else { (p10(-t).and_then(|p| beta.checked_mul(p)), Some(beta)) };
                match (am, b) {
                    (Some(am), Some(b)) if tmax.checked_mul(am).map_or(false, |x| x < lim) && b < lim => {
                        let a_of = move |w: i128| sigma * t_of(w) * am;
                        let bb = sigma * b;
                        let (amin, amax) = (-(tmax * am), tmax * am);
                        let (sa, sb, n) = (sa as u8, sb as u8, n as u8);
                        match route {
                            0 => Some((tag("div"), each(&|w| Op::Div { a: (a_of(w), sa), b: (bb, sb), form: form5 }))),
                            1 => Some((tag("checked_div"), each(&|w| Op::CheckedDiv { a: (a_of(w), sa), b: (bb, sb), form: form4 }))),
                            2 => Some((tag("div_rounded"), each(&|w| Op::DivRounded { a: (a_of(w), sa), b: (bb, sb), n, form: form4 }))),
                            3 | 4 | 5 => int_ty(&mut rng, bb, bb, false).map(|ty| {
                                let i = Int { ty, v: bb };
                                match route {
                                    3 => (tag("div_di"), each(&|w| Op::DivDI { a: (a_of(w), sa), i, form: form5 })),
                                    4 => (tag("checked_div_di"), each(&|w| Op::CheckedDivDI { a: (a_of(w), sa), i })),
                                    _ => (tag("div_rounded_di"), each(&|w| Op::DivRoundedDI { a: (a_of(w), sa), i, n, form: form4 })),
                                }
                            }),
                            6 | 7 => int_ty(&mut rng, amin, amax, true).map(|ty| match route {
                                6 => (tag("div_id"), each(&|w| Op::DivID { i: Int { ty, v: a_of(w) }, b: (bb, sb), form: form4 })),
                                _ => (tag("div_rounded_id"), each(&|w| Op::DivRoundedID { i: Int { ty, v: a_of(w) }, b: (bb, sb), n, form: form4 })),
                            }),
                            _ => int_ty(&mut rng, amin.min(-b), amax.max(b), true).map(|ty| {
                                (tag("div_rounded_ii"), each(&|w| Op::DivRoundedII { i: Int { ty, v: a_of(w) }, j: bb, n, form: form4 }))
                            }),
                        }
                    }
                    _ => None,
                }
            }
            // ---- quantize: round(a/q) * q with a/q = T/10 and q > 0
            9 | 10 => {
                let sb = if route == 10 { 0 } else { sb };
                let t = sb - sa + 1;
                let (am, b) = if t >= 0 { (Some(beta), p10(t).and_then(|p| beta.checked_mul(p))) } else { (p10(-t).and_then(|p| beta.checked_mul(p)), Some(beta)) };
                match (am, b) {
                    (Some(am), Some(b)) if tmax.checked_mul(am).map_or(false, |x| x < lim) && b < lim && tmax.checked_mul(b).map_or(false, |x| x < lim) => {
                        let a_of = move |w: i128| t_of(w) * am;
                        let (sa, sb) = (sa as u8, sb as u8);
                        if route == 9 {
                            Some((tag("quantize"), each(&|w| Op::Quantize { a: (a_of(w), sa), q: (b, sb), form: form4 })))
                        } else {
                            int_ty(&mut rng, b, b, false).map(|ty| (tag("quantize_di"), each(&|w| Op::QuantizeDI { a: (a_of(w), sa), i: Int { ty, v: b } })))
                        }
                    }
                    _ => None,
                }
            }
            // ---- products: A·B = T · 10^u, sa + sb = u + n + 1
            11 | 12 => {
                let (al, be, u) = *rng.pick(&[(1i128, 1i128, 0i64), (1, 10, 1), (2, 5, 1), (5, 2, 1), (4, 25, 2), (25, 4, 2), (8, 125, 3), (125, 8, 3), (1, 1000, 3), (16, 625, 4)]);
                let n: i64 = if route == 11 { 18 } else { rng.range(0, 17) };
                let total = u + n + 1;
                let sa = rng.range((total - 18).max(0), total.min(18));
                let sb = total - sa;
                if total > 36 || sb > 18 || (route == 11 && total <= 18) || !tmax.checked_mul(al).map_or(false, |x| x < lim) {
                    None
                } else {
                    let a_of = move |w: i128| sigma * t_of(w) * al;
                    let bb = sigma * be;
                    let (sa, sb, n) = (sa as u8, sb as u8, n as u8);
                    let swap = rng.pct(50);
                    if route == 11 {
                        Some((tag("mul"), each(&|w| if swap { Op::Mul { a: (bb, sb), b: (a_of(w), sa), form: form5 } } else { Op::Mul { a: (a_of(w), sa), b: (bb, sb), form: form5 } })))
                    } else {
                        Some((tag("mul_rounded"), each(&|w| if swap { Op::MulRounded { a: (bb, sb), b: (a_of(w), sa), n, form: form4 } } else { Op::MulRounded { a: (a_of(w), sa), b: (bb, sb), n, form: form4 } })))
                    }
                }
            }
            // ---- round, checked_round, Display: T·10^z at scale n + 1 + z
            _ => {
                let z = rng.range(0, 6);
                let n: i64 = if route == 15 { rng.range(0, 17 - z) } else { rng.range(-6, 17 - z) };
                let s = n + 1 + z;
                match p10(z) {
                    Some(pz) if (0..=18).contains(&s) && tmax.checked_mul(pz).map_or(false, |x| x < lim) => {
                        let a_of = move |w: i128| t_of(w) * pz;
                        let s = s as u8;
                        match route {
                            13 => Some((tag("round"), each(&|w| Op::Round { a: (a_of(w), s), n: n as i8 }))),
                            14 => Some((tag("checked_round"), each(&|w| Op::CheckedRound { a: (a_of(w), s), n: n as i8 }))),
                            _ => {
                                let var = rng.below(N_FMT_VARIANTS as u64) as u8;
                                let wd = rng.range(0, 14) as u8;
                                Some((tag("display"), each(&|w| Op::Fmt { a: (a_of(w), s), var, w: wd, p: n as u8, pauses: vec![], err_at: 0, reent: false })))
                            }
                        }
                    }
                    _ => None,
                }
            }
        };
        if let Some((name, ops)) = fam_opt {
            v.push(Family { name, ops, class: STD, judged_only: false });
            made += 1;
        }
    }
}

/// The sixteen abstract TAIL witnesses: (kept part q, half?, sign of ε, sign).
pub const TAIL_W: [(i128, i128, i128, i128); 16] = [
    (1, 0, 1, 1), (1, 0, 1, -1), (2, 0, 1, 1), (2, 0, 1, -1),
    (5, 0, 1, 1), (5, 0, 1, -1), (10, 0, 1, 1), (10, 0, 1, -1),
    (1, 1, 1, 1), (1, 1, 1, -1), (1, 1, -1, 1), (1, 1, -1, -1),
    (2, 1, 1, 1), (2, 1, 1, -1), (2, 1, -1, 1), (2, 1, -1, -1),
];

/// Witness `t` as a coefficient with `e` digits after the deciding position:
/// ±(q·10^e + h·5·10^(e-1) ± 1).
fn tail_coeff(t: (i128, i128, i128, i128), e: u32) -> i128 {
    let (q, h, es, sg) = t;
    sg * (q * 10i128.pow(e) + h * 5 * 10i128.pow(e - 1) + es)
}

fn tail_families(v: &mut Vec<Family>) {
    let mut push = |name: String, e: u32, f: &dyn Fn(i128) -> Op| {
        v.push(Family { name: format!("{}/tail{}", name, e), ops: TAIL_W.iter().map(|t| f(tail_coeff(*t, e))).collect(), class: TAIL, judged_only: false });
    };
    for e in [3u32, 17] {
        let eu = e as u8;
        push("round/n=0".into(), e, &|c| Op::Round { a: (c, eu), n: 0 });
        push("checked_round/n=0".into(), e, &|c| Op::CheckedRound { a: (c, eu), n: 0 });
        push("display/p=1".into(), e, &|c| Op::Fmt { a: (c, eu + 1), var: 0, w: 0, p: 1, pauses: vec![], err_at: 0, reent: false });
        push("quantize".into(), e, &|c| Op::Quantize { a: (c, eu + 1), q: (1, 1), form: 0 });
        for f in 0..4u8 {
            push(format!("mul_rounded/form{}", f), e, &|c| Op::MulRounded { a: (c, eu), b: (1, 1), n: 1, form: f });
            push(format!("div_rounded/greater/form{}", f), e, &|c| Op::DivRounded { a: (c, eu + 1), b: (1, 0), n: 1, form: f });
            push(format!("div_rounded/equal/form{}", f), e, &|c| Op::DivRounded { a: (c, 0), b: (10i128.pow(e), 0), n: 0, form: f });
        }
    }
    push("round/n=-1".into(), 3, &|c| Op::Round { a: (c, 2), n: -1 });
    push("checked_round/n=-1".into(), 3, &|c| Op::CheckedRound { a: (c, 2), n: -1 });
    for f in 0..4u8 {
        push(format!("div_rounded/less/form{}", f), 3, &|c| Op::DivRounded { a: (c, 0), b: (100_000, 0), n: 2, form: f });
        push(format!("checked_div/form{}", f), 3, &|c| Op::CheckedDiv { a: (c, 18), b: (1000, 0), form: f });
        // more than 18 digits to drop: the extra ones come from the factor
        push(format!("mul_rounded/long/form{}", f), 18, &|c| Op::MulRounded { a: (c, 18), b: (1, 2), n: 2, form: f });
        push(format!("mul_rounded/long/form{}", f), 19, &|c| Op::MulRounded { a: (c, 18), b: (1, 1), n: 0, form: f });
        push(format!("mul_rounded/long/form{}", f), 25, &|c| Op::MulRounded { a: (c, 18), b: (1, 7), n: 0, form: f });
    }
    for f in 0..5u8 {
        push(format!("div/form{}", f), 3, &|c| Op::Div { a: (c, 18), b: (1000, 0), form: f });
        push(format!("mul/form{}", f), 3, &|c| Op::Mul { a: (c, 18), b: (1, 3), form: f });
        push(format!("mul/form{}", f), 10, &|c| Op::Mul { a: (c, 18), b: (1, 10), form: f });
    }
    for ty in [IntTy::I16, IntTy::U32, IntTy::I64, IntTy::I128] {
        push(format!("div_di/{}", ty.name()), 3, &|c| Op::DivDI { a: (c, 18), i: Int { ty, v: 1000 }, form: 0 });
        push(format!("div_rounded_di/{}", ty.name()), 3, &|c| Op::DivRoundedDI { a: (c, 0), i: Int { ty, v: 1000 }, n: 0, form: 0 });
    }
}

/// Numerators for divisor `d`: kept part 1 (odd), 2 (even), 5 and 10 (the
/// digits Round05Up looks at), remainder smallest / middle (the tie when d is
/// even) / largest, both signs.
pub fn numerators(d: i128) -> Vec<i128> {
    let mut cs = Vec::new();
    for q in [1i128, 2, 5, 10] {
        for r in [1, d / 2, d - 1] {
            let c = q * d + r;
            if !cs.contains(&c) {
                cs.push(c);
                cs.push(-c);
            }
        }
    }
    cs
}

fn divisor_families(v: &mut Vec<Family>, class: usize, dv: i128) {
    let cs = numerators(dv);
    let cmax = *cs.iter().max().unwrap();
    let mut push = |name: String, f: &dyn Fn(i128) -> Op| {
        v.push(Family { name: format!("{}/by{}", name, dv), ops: cs.iter().map(|c| f(*c)).collect(), class, judged_only: false });
    };
    let e18 = 10i128.pow(18);
    for f in 0..5u8 {
        push(format!("div/form{}", f), &|c| Op::Div { a: (c, 18), b: (dv, 0), form: f });
        push(format!("div/fracdiv/form{}", f), &|c| Op::Div { a: (c, 16), b: (dv * 100, 0), form: f });
    }
    push("div/negdiv".into(), &|c| Op::Div { a: (-c, 18), b: (-dv, 0), form: 0 });
    push("checked_div/negdiv".into(), &|c| Op::CheckedDiv { a: (-c, 18), b: (-dv, 0), form: 0 });
    push("div_rounded/negdiv".into(), &|c| Op::DivRounded { a: (-c, 2), b: (-dv, 0), n: 2, form: 0 });
    push("div_di/negdiv/i64".into(), &|c| Op::DivDI { a: (-c, 18), i: Int { ty: IntTy::I64, v: -dv }, form: 0 });
    for f in 0..4u8 {
        push(format!("checked_div/form{}", f), &|c| Op::CheckedDiv { a: (c, 18), b: (dv, 0), form: f });
        push(format!("div_rounded/equal/form{}", f), &|c| Op::DivRounded { a: (c, 2), b: (dv, 0), n: 2, form: f });
        push(format!("div_rounded/equal-frac/form{}", f), &|c| Op::DivRounded { a: (c, 3), b: (dv, 1), n: 2, form: f });
        push(format!("div_rounded/less/form{}", f), &|c| Op::DivRounded { a: (c, 0), b: (dv * 100, 0), n: 2, form: f });
        push(format!("quantize/form{}", f), &|c| Op::Quantize { a: (c, 0), q: (dv, 0), form: f });
    }
    for ty in INT_TYS {
        let id = Int { ty, v: dv };
        for f in 0..5u8 {
            push(format!("div_di/{}/form{}", ty.name(), f), &|c| Op::DivDI { a: (c, 18), i: id, form: f });
        }
        push(format!("checked_div_di/{}", ty.name()), &|c| Op::CheckedDivDI { a: (c, 18), i: id });
        push(format!("quantize_di/{}", ty.name()), &|c| Op::QuantizeDI { a: (c, 0), i: id });
        for f in 0..4u8 {
            push(format!("div_rounded_di/{}/form{}", ty.name(), f), &|c| Op::DivRoundedDI { a: (c, 2), i: id, n: 2, form: f });
        }
        // the numerator as a native integer: signed types that hold ±cmax
        if ty.signed() && ty.fits(cmax) {
            for f in 0..4u8 {
                push(format!("div_id/{}/form{}", ty.name(), f), &|c| Op::DivID { i: Int { ty, v: c }, b: (dv * e18, 0), form: f });
                push(format!("div_rounded_id/{}/form{}", ty.name(), f), &|c| Op::DivRoundedID { i: Int { ty, v: c }, b: (dv, 0), n: 0, form: f });
                push(format!("div_rounded_ii/{}/form{}", ty.name(), f), &|c| Op::DivRoundedII { i: Int { ty, v: c }, j: dv, n: 0, form: f });
            }
            push(format!("checked_div_id/{}", ty.name()), &|c| Op::CheckedDivID { i: Int { ty, v: c }, b: (dv * e18, 0) });
            push(format!("quantize_id/{}", ty.name()), &|c| Op::QuantizeID { i: Int { ty, v: c }, q: (dv, 0) });
            push(format!("quantize_ii/{}", ty.name()), &|c| Op::QuantizeII { i: Int { ty, v: c }, j: dv });
        }
    }
    // d divides a power of ten: the same value as a terminating decimal
    // m·c / 10^k, through the routes that do not divide
    let mut k = 0u8;
    let mut p = 1i128;
    while p % dv != 0 && k < 6 {
        p *= 10;
        k += 1;
    }
    if p % dv == 0 {
        let m = p / dv;
        for n in [0i8, 2, -1] {
            let nf = (n + k as i8) as u8;
            push(format!("round/n={}", n), &|c| Op::Round { a: (m * c, nf), n });
            push(format!("checked_round/n={}", n), &|c| Op::CheckedRound { a: (m * c, nf), n });
        }
        for f in 0..4u8 {
            push(format!("mul_rounded/form{}", f), &|c| Op::MulRounded { a: (m * c, k + 1), b: (1, 0), n: 1, form: f });
            push(format!("quantize/decimal/form{}", f), &|c| Op::Quantize { a: (m * c, k + 1), q: (1, 1), form: f });
        }
        for f in 0..5u8 {
            push(format!("mul/form{}", f), &|c| Op::Mul { a: (m * c, 18), b: (1, k), form: f });
        }
        for var in 0..N_FMT_VARIANTS {
            push(format!("display/variant{}/p=1", var), &|c| Op::Fmt { a: (m * c, k + 1), var, w: 0, p: 1, pauses: vec![], err_at: 0, reent: false });
        }
    }
}

#[derive(Debug, Clone)]
pub struct L2Failure {
    pub kind: String,
    pub family: String,
    pub detail: String,
}

pub struct L2Report {
    pub families: usize,
    pub witness_evals: usize,
    pub pairs_separated: usize,
    pub failures: Vec<L2Failure>,
    pub sample: String,
    pub probe: crate::probe::ProbeReport,
    pub ties: crate::ties::TieReport,
}

fn exempt(class: usize, a: usize, b: usize) -> bool {
    // Ceiling(1)≡Up(7), Down(2)≡Floor(3) on non-negative results
    (class == NONNEG && matches!((a, b), (1, 7) | (2, 3)))
        // what Round05Up does depends on the last kept digit, which differs
        // from route to route in these two classes
        || ((class == THIRDS || class == NINTHS) && (a == 0 || b == 0))
}

/// Runs on the CALLING thread — call it on a fresh one.
///
/// Criterion (relative, so that an ARITHMETIC defect cannot raise a C19
/// alarm): a family is flagged for a pair of modes only if it fails to
/// separate them although some other family of the same witness class does.
/// A defect in the shared rounding kernel (say a wrong tie rule that makes
/// two modes coincide) coarsens every family alike and flags nothing; an
/// operation that ignores or latches the thread's mode is coarser than its
/// siblings and is flagged.  Floor: taken over all families, the eight modes
/// must still fall into at least four classes — otherwise `set_default` has
/// (almost) no effect on arithmetic at all.
/// L2r: the random "must move" probe (see `probe.rs`), on the calling thread.
fn run_probe(only: Option<&str>, (p_from, n_probes): (u64, u64), failures: &mut Vec<L2Failure>) -> crate::probe::ProbeReport {
    let rep = match only {
        None => crate::probe::run_range(p_from, p_from + n_probes),
        // `probe/<i>` or `probe/<a>-<b>` (a history: the probes a..=b in order)
        Some(o) => match o.strip_prefix("probe/").map(|x| match x.split_once('-') {
            Some((a, b)) => (a.parse::<u64>().ok(), b.parse::<u64>().ok()),
            None => (x.parse::<u64>().ok(), x.parse::<u64>().ok()),
        }) {
            Some((Some(a), Some(b))) if a <= b => crate::probe::run_range(a, b + 1),
            _ => crate::probe::ProbeReport::default(),
        },
    };
    for f in &rep.failures {
        failures.push(L2Failure { kind: "probe-insensitive".into(), family: format!("probe/{}", f.idx), detail: f.detail.clone() });
    }
    rep
}

/// L2t: random tie problems through every route (see `ties.rs`); a fifth of
/// the probe budget.
fn run_ties(only: Option<&str>, (p_from, n_probes): (u64, u64), failures: &mut Vec<L2Failure>) -> crate::ties::TieReport {
    let rep = match only {
        None => crate::ties::run_range(p_from / 5, p_from / 5 + n_probes / 5),
        Some(o) => match o.strip_prefix("tie/").and_then(|x| x.parse::<u64>().ok()) {
            Some(i) => crate::ties::run_range(i, i + 1),
            None => crate::ties::TieReport::default(),
        },
    };
    for f in &rep.failures {
        failures.push(L2Failure { kind: "tie-route-disagrees".into(), family: format!("tie/{}", f.idx), detail: f.detail.clone() });
    }
    rep
}

fn run_on_this_thread(only: Option<&str>, n_probes: (u64, u64)) -> L2Report {
    let mut failures = Vec::new();
    let first = mode_index(RoundingMode::default());
    if first != HALF_EVEN {
        failures.push(L2Failure {
            kind: "fresh-thread-default".into(),
            family: "default".into(),
            detail: format!(
                "a fresh thread reads {} before any set_default (expected HalfEven)",
                MODE_NAMES[first as usize]
            ),
        });
    }
    for m in 0..8usize {
        RoundingMode::set_default(MODES[m]);
        let got = mode_index(RoundingMode::default());
        if got as usize != m {
            failures.push(L2Failure {
                kind: "read-back".into(),
                family: "default".into(),
                detail: format!(
                    "set_default({}) then default() = {}",
                    MODE_NAMES[m], MODE_NAMES[got as usize]
                ),
            });
        }
    }
    // bystanders: every other public API call, over ordinary inputs and all
    // its error paths, must leave the thread's mode exactly as it was
    {
        use crate::gen::{MISC_FLOATS, MISC_STRS};
        use crate::ops::MISC_NAMES;
        let decs: [crate::ops::Dec; 6] = [
            (25, 1),
            (-731911, 7),
            (0, 3),
            (i128::MAX - 5, 0),
            (i128::MIN + 7, 2),
            (1, 18),
        ];
        for which in 0..MISC_NAMES.len() as u8 {
            let mut reported = false;
            for m in [7usize, 3, 0] {
                for (i, x) in MISC_FLOATS.iter().enumerate() {
                    for (j, a) in decs.iter().enumerate() {
                        let op = Op::Misc {
                            which,
                            a: *a,
                            b: decs[(j + i) % decs.len()],
                            x: x.to_bits(),
                            s: MISC_STRS[(i + j) % MISC_STRS.len()].to_string(),
                        };
                        RoundingMode::set_default(MODES[m]);
                        let _ = exec_plain(&op);
                        let after = mode_index(RoundingMode::default());
                        if after as usize != m && !reported {
                            reported = true;
                            failures.push(L2Failure {
                                kind: "bystander-changed-mode".into(),
                                family: format!("misc/{}", MISC_NAMES[which as usize]),
                                detail: format!(
                                    "thread mode {} before `{}`, {} after (a call that has no business with the rounding mode)",
                                    MODE_NAMES[m],
                                    op.to_text(),
                                    MODE_NAMES[after as usize]
                                ),
                            });
                        }
                    }
                }
            }
        }
    }
    let fams = families();
    let mut witness_evals = 0;
    let mut sample = String::new();
    let mut all_rows: Vec<Vec<Vec<Outcome>>> = Vec::new();
    for f in &fams {
        let mut rows: Vec<Vec<Outcome>> = Vec::new();
        // two passes in different mode orders: a "first mode seen" latch would
        // make the passes disagree
        for m in 0..8usize {
            RoundingMode::set_default(MODES[m]);
            rows.push(f.ops.iter().map(exec_plain).collect());
            witness_evals += f.ops.len();
        }
        for m in (0..8usize).rev() {
            RoundingMode::set_default(MODES[m]);
            let again: Vec<Outcome> = f.ops.iter().map(exec_plain).collect();
            witness_evals += f.ops.len();
            if again != rows[m] && only.map_or(true, |o| o == f.name) {
                failures.push(L2Failure {
                    kind: "unstable".into(),
                    family: f.name.clone(),
                    detail: format!(
                        "same thread, same mode {}, same operands: different results on a second pass",
                        MODE_NAMES[m]
                    ),
                });
            }
        }
        // third pass, witness-major: the SAME call under one mode after the
        // other, back to back.  A "last value" cache keyed without the mode
        // answers the second mode with the first mode's result.
        for (i, op) in f.ops.iter().enumerate() {
            for m in 0..8usize {
                RoundingMode::set_default(MODES[m]);
                let o = exec_plain(op);
                witness_evals += 1;
                if o != rows[m][i] && only.map_or(true, |x| x == f.name) {
                    failures.push(L2Failure {
                        kind: "unstable".into(),
                        family: f.name.clone(),
                        detail: format!(
                            "`{}` under {} gives {} right after the same call under {}, but {} when other calls came in between",
                            op.to_text(),
                            MODE_NAMES[m],
                            o.show(),
                            MODE_NAMES[(m + 7) % 8],
                            rows[m][i].show()
                        ),
                    });
                    break;
                }
            }
        }
        if sample.is_empty() {
            sample = format!(
                "{}: {} under HalfEven -> {}, under Up -> {}",
                f.name,
                f.ops[0].to_text(),
                rows[HALF_EVEN as usize][0].show(),
                rows[7][0].show()
            );
        }
        all_rows.push(rows);
    }
    // which pairs does ANY family of a sign domain separate?
    let mut sep = [[[false; 8]; 8]; N_CLASSES];
    for (f, rows) in fams.iter().zip(all_rows.iter()) {
        let d = f.class;
        if f.judged_only {
            continue;
        }
        for a in 0..8usize {
            for b in (a + 1)..8usize {
                if rows[a] != rows[b] {
                    sep[d][a][b] = true;
                }
            }
        }
    }
    // floor: classes of the join over the full-sign families
    let mut class_of = [usize::MAX; 8];
    let mut n_classes = 0;
    for a in 0..8usize {
        if class_of[a] == usize::MAX {
            class_of[a] = n_classes;
            for b in (a + 1)..8usize {
                if !sep[0][a][b] && class_of[b] == usize::MAX {
                    class_of[b] = n_classes;
                }
            }
            n_classes += 1;
        }
    }
    if n_classes < 4 {
        failures.push(L2Failure {
            kind: "no-effect".into(),
            family: "default".into(),
            detail: format!(
                "over all {} operation families the eight modes fall into only {} class(es): \
                 set_default has (almost) no effect on arithmetic",
                fams.len(),
                n_classes
            ),
        });
    }
    let mut pairs = 0;
    let mut n_fams = 0;
    for (f, rows) in fams.iter().zip(all_rows.iter()) {
        if let Some(o) = only {
            if f.name != o {
                continue;
            }
        }
        n_fams += 1;
        let d = f.class;
        for a in 0..8usize {
            for b in (a + 1)..8usize {
                if exempt(f.class, a, b) {
                    continue;
                }
                if rows[a] != rows[b] {
                    pairs += 1;
                } else if sep[d][a][b] {
                    failures.push(L2Failure {
                        kind: "insensitive".into(),
                        family: f.name.clone(),
                        detail: format!(
                            "{}={}: identical results on all {} witnesses under both modes (e.g. {} -> {}), \
                             although sibling operations tell these modes apart",
                            MODE_NAMES[a],
                            MODE_NAMES[b],
                            f.ops.len(),
                            f.ops[0].to_text(),
                            rows[a][0].show()
                        ),
                    });
                }
            }
        }
    }
    // Route agreement.  Witness i of every family of a class is the SAME
    // rounding problem (the same rational in units of the last kept digit), so
    // under one mode every route must pick the same one of the two candidate
    // results.  Results are only ORDERED within a family (never computed):
    // per witness, each mode gets 0 (the smaller candidate) or 1 (the larger),
    // "all modes agree" is a pattern of its own.  A route whose pattern
    // differs from the one most routes of its class show has resolved some
    // mode differently - e.g. Floor and Ceiling swapped by a sign trick,
    // which the partition criterion above cannot see.
    let mut agreeing = 0usize;
    // (routes whose quotients are of another order of magnitude - the /wide
    // and /big families - agree among themselves: an arithmetic defect of the
    // kernel that depends on the quotient's size, like control ok2, is not a
    // disagreement about the mode)
    let is_big = |i: usize| fams[i].name.contains("/wide") || fams[i].name.contains("/big");
    for group in 0..2 * N_CLASSES {
        let (class, big) = (group / 2, group % 2 == 1);
        let members: Vec<usize> = (0..fams.len())
            .filter(|i| fams[*i].class == class && !fams[*i].judged_only && is_big(*i) == big)
            .collect();
        if members.len() < 3 {
            continue;
        }
        let mut pats: Vec<Vec<u8>> = members.iter().map(|i| pattern(&all_rows[*i])).collect();
        if class == THIRDS || class == NINTHS {
            // Round05Up (mode 0) is not comparable across these routes
            for p in pats.iter_mut() {
                for j in (0..p.len()).step_by(8) {
                    p[j] = 9;
                }
            }
        }
        let mut best: (usize, &Vec<u8>) = (0, &pats[0]);
        for p in &pats {
            let n = pats.iter().filter(|q| *q == p).count();
            if n > best.0 {
                best = (n, p);
            }
        }
        let consensus = best.1.clone();
        for (k, i) in members.iter().enumerate() {
            if pats[k] == consensus {
                agreeing += 1;
                continue;
            }
            if let Some(o) = only {
                if fams[*i].name != o {
                    continue;
                }
            }
            if pats[k].len() != consensus.len() {
                continue;
            }
            let at = (0..consensus.len()).find(|j| pats[k][*j] != consensus[*j]).unwrap();
            let (wi, m) = (at / 8, at % 8);
            let say = |c: u8| match c {
                0 => "the smaller of the two candidate results",
                1 => "the larger of the two candidate results",
                2 => "the one result all eight modes give",
                _ => "something that cannot be ordered",
            };
            failures.push(L2Failure {
                kind: "route-disagrees".into(),
                family: fams[*i].name.clone(),
                detail: format!(
                    "`{}` under {} returns {} ({}); {} of the {} routes that round the same value return {}",
                    fams[*i].ops[wi].to_text(),
                    MODE_NAMES[m],
                    say(pats[k][at]),
                    all_rows[*i][m][wi].show(),
                    best.0,
                    members.len(),
                    say(consensus[at])
                ),
            });
        }
    }
    let _ = agreeing;
    let probe = run_probe(only, n_probes, &mut failures);
    let ties = run_ties(only, n_probes, &mut failures);
    L2Report { families: n_fams, witness_evals, pairs_separated: pairs, failures, sample, probe, ties }
}

/// The value of an outcome as (coefficient, scale), if it has one.
pub fn value_of(o: &Outcome) -> Option<(i128, u32)> {
    match o {
        Outcome::Dec(c, s) => Some((*c, *s as u32)),
        Outcome::Text { out, ok: true } => {
            let t: String = out.chars().filter(|c| c.is_ascii_digit() || *c == '.' || *c == '-').collect();
            let neg = t.starts_with('-');
            let t = t.trim_start_matches('-');
            if t.is_empty() || t.contains('-') {
                return None;
            }
            let (ip, fp) = match t.split_once('.') {
                Some((a, b)) => (a, b),
                None => (t, ""),
            };
            if fp.contains('.') {
                return None;
            }
            let digits = format!("{}{}", ip, fp);
            let c: i128 = digits.parse().ok()?;
            Some((if neg { -c } else { c }, fp.len() as u32))
        }
        _ => None,
    }
}

pub fn cmp_values(a: (i128, u32), b: (i128, u32)) -> Option<std::cmp::Ordering> {
    let s = a.1.max(b.1);
    let x = a.0.checked_mul(10i128.checked_pow(s - a.1)?)?;
    let y = b.0.checked_mul(10i128.checked_pow(s - b.1)?)?;
    Some(x.cmp(&y))
}

/// rows[mode][witness] -> per witness eight codes: 0 smaller candidate,
/// 1 larger candidate, 2 all modes agree, 3 not orderable / more than two
/// candidates / no value (panic, None, error).
pub fn pattern(rows: &[Vec<Outcome>]) -> Vec<u8> {
    let n = rows[0].len();
    let mut p = Vec::with_capacity(n * 8);
    for i in 0..n {
        let vals: Vec<Option<(i128, u32)>> = (0..8).map(|m| value_of(&rows[m][i])).collect();
        let mut codes = [3u8; 8];
        if vals.iter().all(|v| v.is_some()) {
            let vs: Vec<(i128, u32)> = vals.iter().map(|v| v.unwrap()).collect();
            // smallest and largest
            let mut lo = vs[0];
            let mut hi = vs[0];
            let mut ok = true;
            for x in &vs[1..] {
                match (cmp_values(*x, lo), cmp_values(*x, hi)) {
                    (Some(a), Some(b)) => {
                        if a == std::cmp::Ordering::Less {
                            lo = *x;
                        }
                        if b == std::cmp::Ordering::Greater {
                            hi = *x;
                        }
                    }
                    _ => ok = false,
                }
            }
            if ok {
                let same = cmp_values(lo, hi) == Some(std::cmp::Ordering::Equal);
                for m in 0..8 {
                    let is_lo = cmp_values(vs[m], lo) == Some(std::cmp::Ordering::Equal);
                    let is_hi = cmp_values(vs[m], hi) == Some(std::cmp::Ordering::Equal);
                    codes[m] = if same {
                        2
                    } else if is_lo {
                        0
                    } else if is_hi {
                        1
                    } else {
                        3
                    };
                }
            }
        }
        p.extend_from_slice(&codes);
    }
    p
}

pub fn run(only: Option<String>) -> Result<L2Report, String> {
    run_n(only, (0, crate::probe::DEFAULT_PROBES))
}

/// `n_probes`: (first probe index, number of probes)
pub fn run_n(only: Option<String>, n_probes: (u64, u64)) -> Result<L2Report, String> {
    std::thread::spawn(move || run_on_this_thread(only.as_deref(), n_probes))
        .join()
        .map_err(|_| "L2 thread died".to_string())
}
