//! The baton engine: executes one plan on REAL OS threads with REAL std
//! thread-local storage, while deciding itself who runs.
//!
//! At most one simulated thread is ever runnable: the runner (scheduler)
//! sends a command to exactly one thread and then waits for that thread's
//! reply; every other simulated thread is parked in `recv()` on its own
//! channel.  The order of the plan's steps is therefore the schedule, and a
//! plan replays exactly.  The runner thread itself never touches `fpdec`.
//!
//! The runner owns the reference model (logical thread -> mode) and the event
//! log and checks L1 (exact register model for `default()`) inline.

use std::cell::{Cell, RefCell};
use std::rc::Rc;
use std::collections::BTreeMap;
use std::panic::{catch_unwind, resume_unwind, AssertUnwindSafe};
use std::sync::mpsc::{channel, Receiver, RecvTimeoutError, Sender};
use std::thread::JoinHandle;
use std::time::Duration;

use fpdec::RoundingMode;

use crate::ops::{
    exec, exec_caught, mode_index, Op, Outcome, SinkInfo, HALF_EVEN, MODES,
    MODE_NAMES,
};
use crate::plan::{Action, Api, Plan, ALL};
use crate::prng::Fnv;

/// Operations the TLS-destructor probe performs while its thread is being
/// torn down (after `default()`).
pub fn dtor_ops() -> Vec<Op> {
    vec![
        Op::Round { a: (25, 1), n: 0 },
        Op::Round { a: (-23, 1), n: 0 },
        Op::Round { a: (53, 1), n: 0 },
        Op::Round { a: (27, 1), n: 0 },
        Op::Round { a: (35, 1), n: 0 },
    ]
}

#[derive(Debug)]
pub struct DtorObs {
    /// None: the probe's code panicked (access to the library's TLS failed)
    pub mode: Option<u8>,
    pub outs: Vec<Outcome>,
}

enum Cmd {
    Burst(Op, u32),
    Set(u8),
    Read,
    Op(Op, Vec<u16>),
    Resume,
    Die(Op, Vec<u16>),
    Spawn {
        child: u32,
        api: Api,
        probe_early: bool,
        rx: Receiver<Cmd>,
        reply: Sender<Reply>,
    },
    Exit { probe_late: bool },
}

/// what a burst saw: first outcome, number of later outcomes that differ
/// from it, index of the first such, mode read before, number of later mode
/// reads that differ
struct BurstObs {
    first: Outcome,
    deviations: u32,
    first_deviation: u32,
    mode: u8,
    mode_deviations: u32,
}

enum Reply {
    Burst(u32, BurstObs),
    Ready(u32),
    Done(u32, Outcome, SinkInfo),
    Paused(u32, u16),
    Spawned(u32, Result<JoinHandle<()>, String>),
    Dying(u32, Outcome, SinkInfo),
    Dtor(u32, DtorObs),
    Harness(u32, String),
}

struct DieMarker;

// --- the TLS-destructor probe (harness-side thread-local with a Drop) -------

struct Probe {
    armed: Option<(u32, Sender<Reply>)>,
}

impl Drop for Probe {
    fn drop(&mut self) {
        if let Some((id, tx)) = self.armed.take() {
            let ops = dtor_ops();
            let obs = catch_unwind(AssertUnwindSafe(|| {
                let m = mode_index(RoundingMode::default());
                let mut outs = Vec::new();
                for op in &ops {
                    let mut info = SinkInfo::default();
                    outs.push(exec_caught(op, &mut |_| {}, &mut info));
                }
                (m, outs)
            }));
            let obs = match obs {
                Ok((m, outs)) => DtorObs { mode: Some(m), outs },
                Err(_) => DtorObs { mode: None, outs: Vec::new() },
            };
            let _ = tx.send(Reply::Dtor(id, obs));
        }
    }
}

thread_local! {
    static PROBE: RefCell<Probe> = RefCell::new(Probe { armed: None });
}

fn arm_probe(id: u32, tx: Sender<Reply>) {
    PROBE.with(|p| p.borrow_mut().armed = Some((id, tx)));
}

// --- pre-emption at the library's scheduling points (hooks build) ------------

struct YCtl {
    wanted: Vec<u16>,
    hits: u16,
    fired: u16,
    id: u32,
    tx: Sender<Reply>,
    rx: Rc<Receiver<Cmd>>,
    broken: Option<String>,
}

thread_local! {
    static YCTL: RefCell<Option<YCtl>> = RefCell::new(None);
}

/// Registered with `fpdec_core::verif_hooks::set_hook` in the hooks build;
/// called by the library, on the thread executing the operation, at each
/// scheduling point.  Outside a simulated operation it does nothing.
#[allow(dead_code)]
pub fn yield_hook(_site: u8) {
    let _ = YCTL.try_with(|c| {
        if let Ok(mut g) = c.try_borrow_mut() {
            if let Some(ctl) = g.as_mut() {
                ctl.hits += 1;
                if ctl.wanted.contains(&ctl.hits) {
                    ctl.fired += 1;
                    let _ = ctl.tx.send(Reply::Paused(ctl.id, 1000 + ctl.hits));
                    match ctl.rx.recv() {
                        Ok(Cmd::Resume) => {}
                        Ok(_) => {
                            ctl.broken = Some(
                                "command other than resume while parked at a scheduling point".into(),
                            )
                        }
                        Err(_) => ctl.broken = Some("runner gone while parked".into()),
                    }
                }
            }
        }
    });
}

pub fn install_hook() {
    #[cfg(fpdec_verif)]
    fpdec_core::verif_hooks::set_hook(Some(yield_hook));
}

pub fn hooks_compiled() -> bool {
    cfg!(fpdec_verif)
}

fn yctl_begin(id: u32, yields: Vec<u16>, tx: &Sender<Reply>, rx: &Rc<Receiver<Cmd>>) {
    if yields.is_empty() {
        return;
    }
    YCTL.with(|c| {
        *c.borrow_mut() = Some(YCtl {
            wanted: yields,
            hits: 0,
            fired: 0,
            id,
            tx: tx.clone(),
            rx: rx.clone(),
            broken: None,
        })
    });
}

/// Returns (pre-emptions fired, scheduling points passed, harness problem).
fn yctl_end() -> (u16, u16, Option<String>) {
    YCTL.with(|c| match c.borrow_mut().take() {
        Some(ctl) => (ctl.fired, ctl.hits, ctl.broken),
        None => (0, 0, None),
    })
}

// --- a simulated thread ------------------------------------------------------

fn sim_thread_main(
    id: u32,
    rx: Receiver<Cmd>,
    tx: Sender<Reply>,
    probe_early: bool,
) {
    let rx = Rc::new(rx);
    if probe_early {
        arm_probe(id, tx.clone());
    }
    let _ = tx.send(Reply::Ready(id));
    let broken: Cell<Option<String>> = Cell::new(None);
    loop {
        let cmd = match rx.recv() {
            Ok(c) => c,
            Err(_) => return, // runner went away
        };
        // hand the baton back in the middle of an operation and park until
        // the scheduler says `Resume`
        let mut pause = |k: u16| {
            let _ = tx.send(Reply::Paused(id, k));
            match rx.recv() {
                Ok(Cmd::Resume) => {}
                Ok(_) => broken.set(Some(
                    "command other than resume while parked in sink".into(),
                )),
                Err(_) => broken.set(Some("runner gone while parked".into())),
            }
        };
        match cmd {
            Cmd::Burst(op, k) => {
                let read = || {
                    catch_unwind(|| mode_index(RoundingMode::default())).unwrap_or(255)
                };
                let mut info = SinkInfo::default();
                let mode = read();
                let first = exec_caught(&op, &mut |_| {}, &mut info);
                let mut obs = BurstObs {
                    first,
                    deviations: 0,
                    first_deviation: 0,
                    mode,
                    mode_deviations: 0,
                };
                // a panicking call costs microseconds: a handful is enough
                let k = if obs.first == Outcome::Panicked { k.min(16) } else { k };
                for i in 1..k {
                    let o = exec_caught(&op, &mut |_| {}, &mut info);
                    if o != obs.first {
                        obs.deviations += 1;
                        if obs.first_deviation == 0 {
                            obs.first_deviation = i;
                        }
                    }
                    if i % 997 == 0 && read() != mode {
                        obs.mode_deviations += 1;
                    }
                }
                if read() != mode {
                    obs.mode_deviations += 1;
                }
                let _ = tx.send(Reply::Burst(id, obs));
            }
            Cmd::Set(m) => {
                let r = catch_unwind(|| {
                    RoundingMode::set_default(MODES[m as usize])
                });
                let o = if r.is_ok() { Outcome::Unit } else { Outcome::Panicked };
                let _ = tx.send(Reply::Done(id, o, SinkInfo::default()));
            }
            Cmd::Read => {
                let r = catch_unwind(|| mode_index(RoundingMode::default()));
                let o = match r {
                    Ok(m) => Outcome::Mode(m),
                    Err(_) => Outcome::Panicked,
                };
                let _ = tx.send(Reply::Done(id, o, SinkInfo::default()));
            }
            Cmd::Op(op, yields) => {
                let mut info = SinkInfo::default();
                yctl_begin(id, yields, &tx, &rx);
                let o = exec_caught(&op, &mut pause, &mut info);
                let (yf, yh, ybroken) = yctl_end();
                info.ypaused = yf;
                info.yhits = yh;
                if let Some(msg) = ybroken {
                    broken.set(Some(msg));
                }
                if let Some(msg) = broken.take() {
                    let _ = tx.send(Reply::Harness(id, msg));
                    return;
                }
                let _ = tx.send(Reply::Done(id, o, info));
            }
            Cmd::Die(op, yields) => {
                let mut info = SinkInfo::default();
                yctl_begin(id, yields, &tx, &rx);
                let r = catch_unwind(AssertUnwindSafe(|| {
                    exec(&op, &mut pause, &mut info)
                }));
                let (yf, yh, ybroken) = yctl_end();
                info.ypaused = yf;
                info.yhits = yh;
                if let Some(msg) = ybroken {
                    broken.set(Some(msg));
                }
                if let Some(msg) = broken.take() {
                    let _ = tx.send(Reply::Harness(id, msg));
                    return;
                }
                match r {
                    Ok(o) => {
                        let _ = tx.send(Reply::Dying(id, o, info));
                        std::panic::panic_any(DieMarker);
                    }
                    Err(p) => {
                        let _ =
                            tx.send(Reply::Dying(id, Outcome::Panicked, info));
                        resume_unwind(p);
                    }
                }
            }
            Cmd::Spawn { child, api, probe_early, rx: crx, reply } => {
                let h = spawn_sim_thread(child, api, crx, reply, probe_early);
                let _ = tx.send(Reply::Spawned(id, h));
            }
            Cmd::Exit { probe_late } => {
                if probe_late {
                    arm_probe(id, tx.clone());
                }
                return;
            }
            Cmd::Resume => {
                let _ = tx.send(Reply::Harness(
                    id,
                    "resume while not parked in sink".into(),
                ));
                return;
            }
        }
    }
}

fn spawn_sim_thread(
    id: u32,
    api: Api,
    rx: Receiver<Cmd>,
    reply: Sender<Reply>,
    probe_early: bool,
) -> Result<JoinHandle<()>, String> {
    let body = move || sim_thread_main(id, rx, reply, probe_early);
    match api {
        Api::Std => Ok(std::thread::spawn(body)),
        // names from a tiny pool, so that several live threads share a name
        // (per-thread state must not be keyed by it)
        Api::Builder => std::thread::Builder::new()
            .name(["worker", "pool-0", "main", "pool-1"][(id % 4) as usize].to_string())
            .stack_size(512 * 1024)
            .spawn(body)
            .map_err(|e| e.to_string()),
    }
}

// --- the log -----------------------------------------------------------------

#[derive(Clone, Debug, PartialEq, Eq)]
pub enum EvKind {
    Spawn { child: u32 },
    Set(u8),
    Read,
    Op(Op),
    /// an operation parked inside the sink at write `k`
    Paused(u16),
    Die(Op),
    Exit,
    /// observation made by the TLS-destructor probe
    Dtor,
    Skip(&'static str),
}

#[derive(Clone, Debug)]
pub struct Event {
    pub seq: u32,
    /// index of the plan step that caused it (u32::MAX: implicit end-of-run step)
    pub step: u32,
    pub tid: u32,
    pub kind: EvKind,
    pub outcome: Outcome,
    /// dtor probe: outcomes of `dtor_ops()`
    pub extra: Vec<Outcome>,
    /// model[tid] when the operation STARTED
    pub model_mode: u8,
    /// bit m set: some OTHER live thread held mode m while the op was in flight
    pub others_mask: u8,
    /// tid's previous mode (before its latest `set`), if it ever set twice or
    /// set once (then the previous mode is the initial HalfEven)
    pub prev_mode: Option<u8>,
    /// parent's mode at spawn, while tid has not called `set` itself
    pub inherit_mode: Option<u8>,
    /// the mode most recently set by ANY thread of this process (dead ones too)
    pub global_last: Option<u8>,
    pub sink: SinkInfo,
    /// a foreign `set` happened while this op was parked in the sink
    pub foreign_set_in_flight: bool,
    /// another thread executed a rounding operation while this one was parked
    /// in the middle of its own
    pub foreign_op_in_flight: bool,
}

#[derive(Clone, Debug)]
pub struct Violation {
    /// "L1" | "L3" | "teardown"
    pub layer: &'static str,
    pub kind: String,
    pub seq: u32,
    pub step: u32,
    pub detail: String,
}

impl Violation {
    pub fn signature(&self) -> String {
        format!("{}:{}", self.layer, self.kind)
    }
}

#[derive(Default, Debug)]
pub struct RunResult {
    pub events: Vec<Event>,
    pub violations: Vec<Violation>,
    pub blocked: bool,
    pub blocked_what: String,
    pub max_live: u32,
    pub respawn_after_death: u32,
    pub dtor_expected: u32,
    pub dtor_missing: u32,
    pub churned: u32,
    /// operations executed inside `burst` steps
    pub burst_ops: u64,
    /// largest number of simultaneously live threads reached by a `crowd` step
    pub crowded: u32,
}

struct Pending {
    step: u32,
    op: Op,
    die: bool,
    model_mode: u8,
    others_mask: u8,
    prev_mode: Option<u8>,
    inherit_mode: Option<u8>,
    global_last: Option<u8>,
    foreign_set: bool,
    foreign_op: bool,
    yields: Vec<u16>,
}

struct Th {
    /// None: this logical thread is the process's main thread (run inline)
    tx: Option<Sender<Cmd>>,
    handle: Option<JoinHandle<()>>,
    pending: Option<Pending>,
    probe_armed: bool,
    mode: u8,
    prev_mode: Option<u8>,
    inherit_mode: Option<u8>,
}

pub struct Runner {
    threads: BTreeMap<u32, Th>,
    ever: Vec<u32>,
    deaths: u32,
    reply_tx: Sender<Reply>,
    reply_rx: Receiver<Reply>,
    /// carried across runs of one process on purpose: what a process-global
    /// implementation would remember
    pub global_last: Option<u8>,
    res: RunResult,
    seq: u32,
    watchdog: Duration,
    /// T0 is the main thread, executed inline by the runner
    main_root: bool,
    churn_counter: u32,
    /// never park a thread in the middle of an operation (pauses and yields
    /// of the plan are ignored)
    no_park: bool,
}

pub const WATCHDOG_SECS: u64 = 60;

type HResult<T> = Result<T, String>;

impl Runner {
    pub fn new(global_last: Option<u8>) -> Runner {
        let (reply_tx, reply_rx) = channel();
        Runner {
            threads: BTreeMap::new(),
            ever: Vec::new(),
            deaths: 0,
            reply_tx,
            reply_rx,
            global_last,
            res: RunResult::default(),
            seq: 0,
            watchdog: Duration::from_secs(WATCHDOG_SECS),
            main_root: false,
            churn_counter: 0,
            no_park: false,
        }
    }

    pub fn set_no_park(&mut self, on: bool) {
        self.no_park = on;
    }

    pub fn set_watchdog(&mut self, secs: u64) {
        self.watchdog = Duration::from_secs(secs);
    }

    fn recv(&mut self) -> HResult<Option<Reply>> {
        match self.reply_rx.recv_timeout(self.watchdog) {
            Ok(r) => Ok(Some(r)),
            Err(RecvTimeoutError::Timeout) => Ok(None),
            Err(RecvTimeoutError::Disconnected) => {
                Err("reply channel disconnected".into())
            }
        }
    }

    fn others_mask(&self, tid: u32) -> u8 {
        let mut m = 0u8;
        for (t, th) in &self.threads {
            if *t != tid {
                m |= 1 << th.mode;
            }
        }
        m
    }

    fn push(&mut self, mut e: Event) {
        e.seq = self.seq;
        self.seq += 1;
        self.res.events.push(e);
    }

    fn blank(&self, step: u32, tid: u32, kind: EvKind) -> Event {
        let (mode, prev, inh) = match self.threads.get(&tid) {
            Some(th) => (th.mode, th.prev_mode, th.inherit_mode),
            None => (HALF_EVEN, None, None),
        };
        Event {
            seq: 0,
            step,
            tid,
            kind,
            outcome: Outcome::Unit,
            extra: Vec::new(),
            model_mode: mode,
            others_mask: self.others_mask(tid),
            prev_mode: prev,
            inherit_mode: inh,
            global_last: self.global_last,
            sink: SinkInfo::default(),
            foreign_set_in_flight: false,
            foreign_op_in_flight: false,
        }
    }

    fn skip(&mut self, step: u32, tid: u32, why: &'static str) {
        let e = self.blank(step, tid, EvKind::Skip(why));
        self.push(e);
    }

    fn violation(
        &mut self,
        layer: &'static str,
        kind: String,
        step: u32,
        detail: String,
    ) {
        let seq = self.seq.saturating_sub(1);
        self.res.violations.push(Violation { layer, kind, seq, step, detail });
    }

    /// A step did not hand the baton back within the watchdog period.
    ///
    /// If some OTHER thread is parked in the middle of an operation (in a
    /// sink write or at a scheduling point), the likely cause is a lock of the
    /// library held across that point: the schedule is infeasible, not the
    /// property violated (C19 speaks about which mode is used, not about
    /// progress).  The run is abandoned as UNDECIDED; the process must end
    /// (threads are stuck) and the rest of the shard runs without mid-operation
    /// parking.  With nobody parked it is a genuine hang: harness error.
    fn blocked(&mut self, step: u32, tid: u32, what: &str) -> HResult<()> {
        let parked: Vec<u32> = self
            .threads
            .iter()
            .filter(|(t, th)| **t != tid && th.pending.is_some())
            .map(|(t, _)| *t)
            .collect();
        if parked.is_empty() {
            return Err(format!(
                "T{} did not return from {} within {} s although no thread is parked mid-operation (hang)",
                tid,
                what,
                self.watchdog.as_secs()
            ));
        }
        self.res.blocked = true;
        self.res.blocked_what = format!(
            "T{} did not hand the baton back within {} s during {} while T{:?} is parked in the middle of an \
             operation (a lock held across a sink callback / scheduling point?)",
            tid,
            self.watchdog.as_secs(),
            what,
            parked
        );
        let e = self.blank(step, tid, EvKind::Skip("blocked"));
        self.push(e);
        Ok(())
    }

    fn check_read(&mut self, step: u32, tid: u32, o: &Outcome, what: &str) {
        let model = self.threads.get(&tid).map(|t| t.mode).unwrap_or(HALF_EVEN);
        let ok = matches!(o, Outcome::Mode(m) if *m == model);
        if !ok {
            self.violation(
                "L1",
                what.to_string(),
                step,
                format!(
                    "T{}: RoundingMode::default() gave {} but the mode last \
                     set by T{} is {}",
                    tid,
                    o.show(),
                    tid,
                    MODE_NAMES[model as usize]
                ),
            );
        }
    }

    /// Spawn the root thread from the runner (which never touches fpdec).
    fn spawn_root(&mut self, plan: &Plan) -> HResult<()> {
        if plan.root_is_main {
            // T0 = the thread we are on.  Nothing to spawn.  The runner
            // executes T0's operations inline, without a watchdog, so no
            // other thread may be parked mid-operation meanwhile (a library
            // lock held across the park would hang the runner itself).
            self.main_root = true;
            self.no_park = true;
            self.threads.insert(
                0,
                Th {
                    tx: None,
                    handle: None,
                    pending: None,
                    probe_armed: false,
                    mode: HALF_EVEN,
                    prev_mode: None,
                    inherit_mode: None,
                },
            );
            self.ever.push(0);
            let mut e = self.blank(u32::MAX, 0, EvKind::Spawn { child: 0 });
            e.tid = ALL;
            self.push(e);
            return Ok(());
        }
        let (tx, rx) = channel();
        let api = if plan.root_api_builder { Api::Builder } else { Api::Std };
        let h = spawn_sim_thread(
            0,
            api,
            rx,
            self.reply_tx.clone(),
            plan.root_probe_early,
        )?;
        match self.recv()? {
            Some(Reply::Ready(0)) => {}
            Some(_) => return Err("root: unexpected reply".into()),
            None => return Err("root thread did not start".into()),
        }
        self.threads.insert(
            0,
            Th {
                tx: Some(tx),
                handle: Some(h),
                pending: None,
                probe_armed: plan.root_probe_early,
                mode: HALF_EVEN,
                prev_mode: None,
                inherit_mode: None,
            },
        );
        self.ever.push(0);
        let mut e = self.blank(u32::MAX, 0, EvKind::Spawn { child: 0 });
        e.tid = ALL;
        self.push(e);
        Ok(())
    }

    fn do_spawn(
        &mut self,
        step: u32,
        tid: u32,
        child: u32,
        api: Api,
        probe_early: bool,
    ) -> HResult<()> {
        if self.ever.contains(&child) {
            self.skip(step, tid, "child id already used");
            return Ok(());
        }
        let (tx, rx) = channel();
        let parent_mode = self.threads[&tid].mode;
        let ev = self.blank(step, tid, EvKind::Spawn { child });
        let mut handle = None;
        match &self.threads[&tid].tx {
            Some(tx) => tx
                .send(Cmd::Spawn {
                    child,
                    api,
                    probe_early,
                    rx,
                    reply: self.reply_tx.clone(),
                })
                .map_err(|_| format!("T{}: command channel closed", tid))?,
            None => {
                // the main thread is the parent: spawn right here
                handle = Some(spawn_sim_thread(
                    child,
                    api,
                    rx,
                    self.reply_tx.clone(),
                    probe_early,
                )?);
            }
        }
        let mut ready = false;
        while handle.is_none() || !ready {
            match self.recv()? {
                Some(Reply::Spawned(t, h)) if t == tid => handle = Some(h?),
                Some(Reply::Ready(c)) if c == child => ready = true,
                Some(_) => {
                    return Err(format!(
                        "spawn T{}->T{}: reply from a thread that does not \
                         hold the baton",
                        tid, child
                    ))
                }
                None => {
                    self.blocked(step, tid, "spawn")?;
                    return Ok(());
                }
            }
        }
        if self.deaths > 0 {
            self.res.respawn_after_death += 1;
        }
        self.threads.insert(
            child,
            Th {
                tx: Some(tx),
                handle,
                pending: None,
                probe_armed: probe_early,
                mode: HALF_EVEN,
                prev_mode: None,
                inherit_mode: Some(parent_mode),
            },
        );
        self.ever.push(child);
        self.res.max_live = self.res.max_live.max(self.threads.len() as u32);
        self.push(ev);
        Ok(())
    }

    /// Send `cmd` to `tid` and handle the reply of an operation-like command
    /// (Op, Die, Resume).
    fn drive_op(&mut self, step: u32, tid: u32, cmd: Cmd) -> HResult<()> {
        self.threads[&tid]
            .tx
            .as_ref()
            .ok_or("drive_op on the main thread")?
            .send(cmd)
            .map_err(|_| format!("T{}: command channel closed", tid))?;
        let reply = match self.recv()? {
            Some(r) => r,
            None => {
                self.blocked(step, tid, "op")?;
                return Ok(());
            }
        };
        match reply {
            Reply::Paused(t, k) if t == tid => {
                // still in flight; other threads may run now
                let mut p = self
                    .threads
                    .get_mut(&tid)
                    .and_then(|th| th.pending.take())
                    .ok_or("paused without pending op")?;
                p.others_mask |= self.others_mask(tid);
                let mut e = self.blank(step, tid, EvKind::Paused(k));
                e.model_mode = p.model_mode;
                self.threads.get_mut(&tid).unwrap().pending = Some(p);
                self.push(e);
                Ok(())
            }
            Reply::Done(t, o, info) if t == tid => {
                let p = self
                    .threads
                    .get_mut(&tid)
                    .and_then(|th| th.pending.take())
                    .ok_or("done without pending op")?;
                if p.die {
                    return Err("Done reply to a die command".into());
                }
                self.finish_op(step, tid, p, o, info);
                Ok(())
            }
            Reply::Dying(t, o, info) if t == tid => {
                let p = self
                    .threads
                    .get_mut(&tid)
                    .and_then(|th| th.pending.take())
                    .ok_or("dying without pending op")?;
                if !p.die {
                    return Err("Dying reply to an op command".into());
                }
                self.finish_op(step, tid, p, o, info);
                self.reap(step, tid, true)
            }
            Reply::Harness(t, msg) => Err(format!("T{}: {}", t, msg)),
            _ => Err(format!(
                "T{}: reply from a thread that does not hold the baton",
                tid
            )),
        }
    }

    fn finish_op(
        &mut self,
        step: u32,
        tid: u32,
        p: Pending,
        o: Outcome,
        info: SinkInfo,
    ) {
        let mask = p.others_mask | self.others_mask(tid);
        let e = Event {
            seq: 0,
            step,
            tid,
            kind: if p.die { EvKind::Die(p.op) } else { EvKind::Op(p.op) },
            outcome: o,
            extra: Vec::new(),
            model_mode: p.model_mode,
            others_mask: mask,
            prev_mode: p.prev_mode,
            inherit_mode: p.inherit_mode,
            global_last: p.global_last,
            sink: info,
            foreign_set_in_flight: p.foreign_set,
            foreign_op_in_flight: p.foreign_op,
        };
        let _ = (&p.step, &p.yields);
        let n = info.n_reent as usize;
        let seen: Vec<u8> = info.reent_modes[..n].to_vec();
        let model = e.model_mode;
        let set_in_sink = match &e.kind {
            EvKind::Op(Op::FmtSet { m, .. }) | EvKind::Die(Op::FmtSet { m, .. }) => Some(*m % 8),
            _ => None,
        };
        self.push(e);
        if info.unwind_mode != 254 && info.unwind_mode != model {
            self.violation(
                "L1",
                "unwinding-read".into(),
                step,
                format!(
                    "T{}: default() called from a Drop guard while the thread was unwinding out of the \
                     operation gave {} but the mode last set by T{} is {}",
                    tid,
                    if info.unwind_mode == 255 { "a panic".to_string() } else { MODE_NAMES[info.unwind_mode as usize].to_string() },
                    tid,
                    MODE_NAMES[model as usize]
                ),
            );
        }
        if let Some(m) = set_in_sink {
            // the sink called set_default(m) in the middle of Display: from
            // then on that is the thread's mode
            if info.set_in_sink_readback != m {
                self.violation(
                    "L1",
                    "set-in-sink".into(),
                    step,
                    format!(
                        "T{}: set_default({}) called from inside the sink (in the middle of Display) and \
                         default() read right after it gave {}",
                        tid,
                        MODE_NAMES[m as usize],
                        if info.set_in_sink_readback == 255 { "a panic".to_string() } else { MODE_NAMES[info.set_in_sink_readback as usize].to_string() }
                    ),
                );
            }
            if let Some(th) = self.threads.get_mut(&tid) {
                th.prev_mode = Some(th.mode);
                th.mode = m;
                th.inherit_mode = None;
            }
            self.global_last = Some(m);
            for (t2, th2) in self.threads.iter_mut() {
                if *t2 != tid {
                    if let Some(p) = th2.pending.as_mut() {
                        p.foreign_set = true;
                        p.others_mask |= 1 << m;
                    }
                }
            }
        }
        for (k, m) in seen.iter().enumerate() {
            if *m != model {
                self.violation(
                    "L1",
                    "reentrant-read".into(),
                    step,
                    format!(
                        "T{}: default() called from inside the sink's write #{} \
                         (in the middle of Display) gave {} but the mode last \
                         set by T{} is {}",
                        tid,
                        k + 1,
                        if *m == 255 { "a panic".to_string() } else { MODE_NAMES[*m as usize].to_string() },
                        tid,
                        MODE_NAMES[model as usize]
                    ),
                );
                break;
            }
        }
    }

    /// Join a thread that was told to exit or is unwinding; collect the
    /// TLS-destructor probe's observation.
    fn reap(&mut self, step: u32, tid: u32, expect_panic: bool) -> HResult<()> {
        let mut th = self.threads.remove(&tid).ok_or("reap: no such thread")?;
        let h = th.handle.take().ok_or("reap: no handle")?;
        let joined = h.join();
        if joined.is_err() != expect_panic {
            return Err(format!(
                "T{}: join() = {} but expected {}",
                tid,
                if joined.is_err() { "Err" } else { "Ok" },
                if expect_panic { "Err" } else { "Ok" }
            ));
        }
        self.deaths += 1;
        // model: thread removed.  The destructor probe (if armed) has sent its
        // observation before join() returned.
        let model_mode = th.mode;
        let mut got = None;
        while let Ok(r) = self.reply_rx.try_recv() {
            match r {
                Reply::Dtor(t, obs) if t == tid => got = Some(obs),
                Reply::Harness(t, msg) => {
                    return Err(format!("T{}: {}", t, msg))
                }
                _ => {
                    return Err(format!(
                        "stray reply while reaping T{}",
                        tid
                    ))
                }
            }
        }
        if th.probe_armed {
            self.res.dtor_expected += 1;
            match got {
                None => self.res.dtor_missing += 1,
                Some(obs) => {
                    let mut e = self.blank(step, tid, EvKind::Dtor);
                    e.model_mode = model_mode;
                    e.prev_mode = th.prev_mode;
                    e.inherit_mode = th.inherit_mode;
                    match obs.mode {
                        Some(m) => {
                            e.outcome = Outcome::Mode(m);
                            e.extra = obs.outs;
                            self.push(e);
                            if m != model_mode {
                                self.violation(
                                    "L1",
                                    "dtor-read".into(),
                                    step,
                                    format!(
                                        "T{}: default() inside a TLS \
                                         destructor gave {} but the thread's \
                                         mode is {}",
                                        tid,
                                        MODE_NAMES[m as usize],
                                        MODE_NAMES[model_mode as usize]
                                    ),
                                );
                            }
                        }
                        None => {
                            e.outcome = Outcome::Panicked;
                            self.push(e);
                            self.violation(
                                "teardown",
                                "panic".into(),
                                step,
                                format!(
                                    "T{}: default()/round panicked inside a \
                                     TLS destructor of the same thread",
                                    tid
                                ),
                            );
                        }
                    }
                }
            }
        }
        Ok(())
    }

    fn do_exit(&mut self, step: u32, tid: u32, probe_late: bool) -> HResult<()> {
        let e = self.blank(step, tid, EvKind::Exit);
        {
            let th = self.threads.get_mut(&tid).unwrap();
            if probe_late {
                th.probe_armed = true;
            }
            th.tx
                .as_ref()
                .ok_or("exit of the main thread")?
                .send(Cmd::Exit { probe_late })
                .map_err(|_| format!("T{}: command channel closed", tid))?;
        }
        self.push(e);
        self.reap(step, tid, false)
    }

    fn do_simple(&mut self, step: u32, tid: u32, set: Option<u8>) -> HResult<()> {
        if self.threads[&tid].tx.is_none() {
            // the main thread: run the call right here
            let o = match set {
                Some(m) => {
                    let r = catch_unwind(|| {
                        RoundingMode::set_default(MODES[m as usize])
                    });
                    if r.is_ok() { Outcome::Unit } else { Outcome::Panicked }
                }
                None => match catch_unwind(|| mode_index(RoundingMode::default())) {
                    Ok(m) => Outcome::Mode(m),
                    Err(_) => Outcome::Panicked,
                },
            };
            self.simple_result(step, tid, set, o);
            return Ok(());
        }
        let cmd = match set {
            Some(m) => Cmd::Set(m),
            None => Cmd::Read,
        };
        self.threads[&tid]
            .tx
            .as_ref()
            .unwrap()
            .send(cmd)
            .map_err(|_| format!("T{}: command channel closed", tid))?;
        let reply = match self.recv()? {
            Some(r) => r,
            None => {
                self.blocked(step, tid, if set.is_some() { "set" } else { "read" })?;
                return Ok(());
            }
        };
        match reply {
            Reply::Done(t, o, _) if t == tid => {
                self.simple_result(step, tid, set, o);
                Ok(())
            }
            Reply::Harness(t, msg) => Err(format!("T{}: {}", t, msg)),
            _ => Err(format!(
                "T{}: reply from a thread that does not hold the baton",
                tid
            )),
        }
    }

    /// Book-keeping after a `set_default` / `default()` call returned.
    fn simple_result(&mut self, step: u32, tid: u32, set: Option<u8>, o: Outcome) {
        match set {
            Some(m) => {
                let mut e = self.blank(step, tid, EvKind::Set(m));
                e.outcome = o.clone();
                self.push(e);
                if o != Outcome::Unit {
                    self.violation(
                        "L1",
                        "set-panicked".into(),
                        step,
                        format!("T{}: set_default panicked", tid),
                    );
                }
                let th = self.threads.get_mut(&tid).unwrap();
                th.prev_mode = Some(th.mode);
                th.mode = m;
                th.inherit_mode = None;
                self.global_last = Some(m);
                // a foreign set while some other thread's op is in flight
                for (t2, th2) in self.threads.iter_mut() {
                    if *t2 != tid {
                        if let Some(p) = th2.pending.as_mut() {
                            p.foreign_set = true;
                            p.others_mask |= 1 << m;
                        }
                    }
                }
            }
            None => {
                let mut e = self.blank(step, tid, EvKind::Read);
                e.outcome = o.clone();
                self.push(e);
                self.check_read(step, tid, &o, "read");
            }
        }
    }

    fn start_op(
        &mut self,
        step: u32,
        tid: u32,
        op: &Op,
        die: bool,
        yields: &[u16],
    ) -> HResult<()> {
        // every operation that is parked mid-way right now sees a foreign op
        for (t2, th2) in self.threads.iter_mut() {
            if *t2 != tid {
                if let Some(p2) = th2.pending.as_mut() {
                    p2.foreign_op = true;
                }
            }
        }
        let p = {
            let th = &self.threads[&tid];
            Pending {
                step,
                op: op.clone(),
                die,
                model_mode: th.mode,
                others_mask: self.others_mask(tid),
                prev_mode: th.prev_mode,
                inherit_mode: th.inherit_mode,
                global_last: self.global_last,
                foreign_set: false,
                foreign_op: false,
                yields: yields.to_vec(),
            }
        };
        if self.threads[&tid].tx.is_none() {
            // the main thread: run the operation right here, without parking
            // (a parked main thread could not schedule anybody)
            let mut op2 = op.clone();
            if let Op::Fmt { pauses, .. } = &mut op2 {
                pauses.clear();
            }
            let mut p = p;
            p.op = op2.clone();
            let mut info = SinkInfo::default();
            let o = exec_caught(&op2, &mut |_| {}, &mut info);
            self.finish_op(step, tid, p, o, info);
            return Ok(());
        }
        self.threads.get_mut(&tid).unwrap().pending = Some(p);
        let mut y = yields.to_vec();
        let mut op = op.clone();
        if self.no_park {
            y.clear();
            if let Op::Fmt { pauses, .. } = &mut op {
                pauses.clear();
            }
            if let Some(p) = self.threads.get_mut(&tid).and_then(|t| t.pending.as_mut()) {
                p.op = op.clone();
            }
        }
        let cmd = if die { Cmd::Die(op, y) } else { Cmd::Op(op, y) };
        self.drive_op(step, tid, cmd)
    }

    /// The same operation `k` times back-to-back on `tid`.
    fn do_burst(&mut self, step: u32, tid: u32, op: &Op, k: u32) -> HResult<()> {
        // no parking inside a burst, and no re-entrant sink work (a wide,
        // padded Display with a re-entrant sink costs tens of microseconds)
        let mut op = op.clone();
        if let Op::Fmt { pauses, reent, w, .. } = &mut op {
            pauses.clear();
            *reent = false;
            if *w > 24 {
                *w = 24;
            }
        }
        let mut ev = self.blank(step, tid, EvKind::Op(op.clone()));
        let obs = if self.threads[&tid].tx.is_none() {
            return self.start_op(step, tid, &op, false, &[]); // main thread: a single call
        } else {
            self.threads[&tid]
                .tx
                .as_ref()
                .unwrap()
                .send(Cmd::Burst(op.clone(), k))
                .map_err(|_| format!("T{}: command channel closed", tid))?;
            // a burst is k operations: give it time in proportion (the host
            // may be busy), the ordinary watchdog is for single operations
            let saved = self.watchdog;
            self.watchdog = saved + Duration::from_secs(60 + (k as u64) / 1000);
            let r = self.recv();
            self.watchdog = saved;
            match r? {
                Some(Reply::Burst(t, obs)) if t == tid => obs,
                Some(Reply::Harness(t, msg)) => return Err(format!("T{}: {}", t, msg)),
                Some(_) => {
                    return Err(format!(
                        "T{}: reply from a thread that does not hold the baton",
                        tid
                    ))
                }
                None => {
                    self.blocked(step, tid, "burst")?;
                    return Ok(());
                }
            }
        };
        ev.outcome = obs.first.clone();
        let model = ev.model_mode;
        self.push(ev);
        self.res.burst_ops += k as u64;
        if obs.mode != model || obs.mode_deviations > 0 {
            self.violation(
                "L1",
                "burst-read".into(),
                step,
                format!(
                    "T{}: default() read {} before a burst of {} identical calls and differed {} time(s) \
                     during/after it; the mode last set by T{} is {}",
                    tid,
                    if obs.mode == 255 { "a panic".to_string() } else { MODE_NAMES[obs.mode as usize].to_string() },
                    k,
                    obs.mode_deviations,
                    tid,
                    MODE_NAMES[model as usize]
                ),
            );
        }
        if obs.deviations > 0 {
            self.violation(
                "L3",
                "burst-unstable".into(),
                step,
                format!(
                    "T{}: `{}` repeated {} times back-to-back (nothing else ran in between) gave {} at first \
                     but a different result in {} later call(s), first at call #{}",
                    tid,
                    op.to_text(),
                    k,
                    obs.first.show(),
                    obs.deviations,
                    obs.first_deviation + 1
                ),
            );
        }
        Ok(())
    }

    /// `n` short-lived threads spawned by `tid`, one after another.
    fn do_churn(&mut self, step: u32, tid: u32, n: u16, m: u8) -> HResult<()> {
        for i in 0..n {
            if self.res.blocked || !self.threads.contains_key(&tid) {
                break;
            }
            self.churn_counter += 1;
            let child = 1_000_000 + self.churn_counter;
            self.do_spawn(step, tid, child, Api::Builder, false)?;
            if !self.threads.contains_key(&child) {
                break;
            }
            self.do_simple(step, child, Some((m as u16 + i) as u8 % 8))?;
            if self.res.blocked {
                break;
            }
            self.do_simple(step, child, None)?;
            if self.res.blocked {
                break;
            }
            self.do_exit(step, child, false)?;
        }
        self.res.churned += n as u32;
        if !self.res.blocked && self.threads.contains_key(&tid) {
            self.do_simple(step, tid, None)?;
        }
        Ok(())
    }

    /// `n` extra threads alive at the same time, all spawned by `tid`.
    fn do_crowd(&mut self, step: u32, tid: u32, n: u16, m: u8) -> HResult<()> {
        let mut ids: Vec<u32> = Vec::new();
        for i in 0..n {
            if self.res.blocked || !self.threads.contains_key(&tid) {
                break;
            }
            self.churn_counter += 1;
            let child = 1_000_000 + self.churn_counter;
            let api = if i % 2 == 0 { Api::Std } else { Api::Builder };
            self.do_spawn(step, tid, child, api, false)?;
            if !self.threads.contains_key(&child) {
                break;
            }
            ids.push(child);
            self.do_simple(step, child, Some((m as u16 + i) as u8 % 8))?;
        }
        self.res.crowded = self.res.crowded.max(self.threads.len() as u32);
        // everybody (the crowd and whoever else is alive and not parked) reads
        // its own mode back and rounds a witness under it
        let witness = Op::Round { a: (25, 1), n: 0 };
        let all: Vec<u32> = self
            .threads
            .iter()
            .filter(|(_, th)| th.pending.is_none())
            .map(|(t, _)| *t)
            .collect();
        for t in all {
            if self.res.blocked {
                break;
            }
            self.do_simple(step, t, None)?;
            if self.res.blocked || !self.threads.contains_key(&t) {
                break;
            }
            self.start_op(step, t, &witness, false, &[])?;
        }
        for t in ids.into_iter().rev() {
            if self.res.blocked {
                break;
            }
            if self.threads.contains_key(&t) {
                self.do_exit(step, t, false)?;
            }
        }
        Ok(())
    }

    fn sweep(&mut self, step: u32) -> HResult<()> {
        let ids: Vec<u32> = self
            .threads
            .iter()
            .filter(|(_, th)| th.pending.is_none())
            .map(|(t, _)| *t)
            .collect();
        for t in ids {
            if self.res.blocked {
                break;
            }
            self.do_simple(step, t, None)?;
        }
        Ok(())
    }

    fn step(
        &mut self,
        ix: u32,
        tid: u32,
        action: &Action,
        yields: &[u16],
    ) -> HResult<()> {
        if let Action::Sweep = action {
            return self.sweep(ix);
        }
        let (alive, parked) = match self.threads.get(&tid) {
            Some(th) => (true, th.pending.is_some()),
            None => (false, false),
        };
        if !alive {
            self.skip(ix, tid, "thread not alive");
            return Ok(());
        }
        match action {
            Action::Resume => {
                if !parked {
                    self.skip(ix, tid, "nothing to resume");
                    return Ok(());
                }
                self.drive_op(ix, tid, Cmd::Resume)
            }
            _ if parked => {
                self.skip(ix, tid, "thread is parked inside a Display call");
                Ok(())
            }
            Action::Spawn { child, api, probe_early } => {
                self.do_spawn(ix, tid, *child, *api, *probe_early)
            }
            Action::Set(m) => self.do_simple(ix, tid, Some(*m)),
            Action::Read => self.do_simple(ix, tid, None),
            Action::Op(op) => self.start_op(ix, tid, op, false, yields),
            Action::Die(_) | Action::Exit { .. }
                if self.main_root && tid == 0 =>
            {
                self.skip(ix, tid, "the main thread does not end");
                Ok(())
            }
            Action::Die(op) => self.start_op(ix, tid, op, true, yields),
            Action::Exit { probe_late } => self.do_exit(ix, tid, *probe_late),
            Action::Churn { n, m } => self.do_churn(ix, tid, *n, *m),
            Action::Burst { op, k } => self.do_burst(ix, tid, op, *k),
            Action::Crowd { n, m } => self.do_crowd(ix, tid, *n, *m),
            Action::Sweep => unreachable!(),
        }
    }

    /// Execute one plan.  `Err` is a harness error (exit 2), never a verdict.
    pub fn run(mut self, plan: &Plan) -> HResult<(RunResult, Option<u8>)> {
        self.spawn_root(plan)?;
        self.res.max_live = 1;
        for (ix, st) in plan.steps.iter().enumerate() {
            if self.res.blocked {
                break;
            }
            self.step(ix as u32, st.tid, &st.action, &st.yields)?;
            // cross-invariant: the model and the set of OS threads we hold
            // handles for are the same set
            if self.threads.iter().any(|(id, t)| {
                t.handle.is_none() && !(self.main_root && *id == 0)
            }) {
                return Err("live thread without a join handle".into());
            }
        }
        // implicit end of run: finish parked operations, final sweep, exit all
        if !self.res.blocked {
            let parked: Vec<u32> = self
                .threads
                .iter()
                .filter(|(_, th)| th.pending.is_some())
                .map(|(t, _)| *t)
                .collect();
            for t in parked {
                let mut guard = 0;
                while !self.res.blocked
                    && self.threads.get(&t).map_or(false, |th| th.pending.is_some())
                {
                    self.drive_op(u32::MAX, t, Cmd::Resume)?;
                    guard += 1;
                    if guard > 1000 {
                        return Err("runaway resume loop".into());
                    }
                }
            }
        }
        if !self.res.blocked {
            self.sweep(u32::MAX)?;
        }
        if !self.res.blocked {
            let ids: Vec<u32> = self
                .threads
                .iter()
                .filter(|(_, th)| th.tx.is_some())
                .map(|(t, _)| *t)
                .collect();
            for t in ids {
                self.do_exit(u32::MAX, t, false)?;
            }
        }
        Ok((self.res, self.global_last))
    }
}

/// Fingerprint of a run: every event with its outcome.  Logical ids only; no
/// addresses, OS thread ids, times or panic messages.
pub fn log_hash(events: &[Event]) -> u64 {
    let mut h = Fnv::default();
    for e in events {
        h.u64(e.seq as u64);
        h.u64(e.step as u64);
        h.u64(e.tid as u64);
        h.str(&kind_text(&e.kind));
        h.str(&e.outcome.show());
        for x in &e.extra {
            h.str(&x.show());
        }
        h.u64(e.model_mode as u64);
    }
    h.0
}

/// Fingerprint of the schedule alone: which thread acted at each step.
pub fn sched_hash(events: &[Event]) -> u64 {
    let mut h = Fnv::default();
    for e in events {
        h.u64(e.tid as u64);
        let tag: u64 = match &e.kind {
            EvKind::Spawn { .. } => 1,
            EvKind::Set(_) => 2,
            EvKind::Read => 3,
            EvKind::Op(_) => 4,
            EvKind::Paused(_) => 5,
            EvKind::Die(_) => 6,
            EvKind::Exit => 7,
            EvKind::Dtor => 8,
            EvKind::Skip(_) => 9,
        };
        h.u64(tag);
    }
    h.0
}

pub fn kind_text(k: &EvKind) -> String {
    match k {
        EvKind::Spawn { child } => format!("spawn T{}", child),
        EvKind::Set(m) => format!("set {}", MODE_NAMES[*m as usize]),
        EvKind::Read => "read".into(),
        EvKind::Op(op) => format!("op {}", op.to_text()),
        EvKind::Paused(k) if *k >= 1000 => {
            format!("parked-at-scheduling-point #{}", k - 1000)
        }
        EvKind::Paused(k) => format!("parked-in-sink write#{}", k),
        EvKind::Die(op) => format!("die {}", op.to_text()),
        EvKind::Exit => "exit".into(),
        EvKind::Dtor => "tls-destructor-probe".into(),
        EvKind::Skip(w) => format!("skipped ({})", w),
    }
}

pub fn event_text(e: &Event) -> String {
    let t = if e.tid == ALL { "--".to_string() } else { format!("T{}", e.tid) };
    let mut s = format!(
        "{:>4} {:<3} [{}] {} -> {}",
        e.seq,
        t,
        MODE_NAMES[e.model_mode as usize],
        kind_text(&e.kind),
        e.outcome.show()
    );
    for x in &e.extra {
        s.push(' ');
        s.push_str(&x.show());
    }
    s
}
