//! A *plan* is one simulated run written down completely: a flat, totally
//! ordered list of steps `(logical thread, action)`.  Because only the baton
//! holder ever runs, the order of the list IS the schedule.  A *session* is a
//! sequence of plans executed one after another in the same process (what a
//! shard does); a replay file is a session, nearly always of one plan.
//!
//! Line-oriented text so that a human can read, edit and re-run it.

use crate::ops::{mode_from_name, Op, MODE_NAMES};

pub const ALL: u32 = u32::MAX;

#[derive(Clone, Copy, PartialEq, Eq, Debug)]
pub enum Api {
    /// `std::thread::spawn`
    Std,
    /// `std::thread::Builder` with a name and a small stack
    Builder,
}

#[derive(Clone, PartialEq, Eq, Debug)]
pub enum Action {
    /// executed ON the parent thread while it holds the baton
    Spawn { child: u32, api: Api, probe_early: bool },
    Set(u8),
    Read,
    /// one library operation under `catch_unwind`
    Op(Op),
    /// continue a Display operation that is parked inside the sink
    Resume,
    /// the operation, then the thread unwinds and ends (crash)
    Die(Op),
    /// thread function returns; `probe_late`: arm the TLS-destructor probe now
    Exit { probe_late: bool },
    /// every live, not-parked thread performs `Read`, in id order (tid = ALL)
    Sweep,
    /// `n` short-lived threads, one after another, each spawned by `tid`,
    /// each sets mode `(m + i) % 8`, reads it back and exits.  Long-lived
    /// threads must not notice (thread ids / TLS slots / table slots of dead
    /// threads get reused or collide only after many thread creations).
    Churn { n: u16, m: u8 },
    /// the same operation `k` times back-to-back on `tid`, nothing else
    /// running in between: all `k` outcomes must be identical and the mode
    /// read every so often must stay put (counters that wrap, state that is
    /// refreshed every N-th call)
    Burst { op: Op, k: u32 },
    /// `n` extra threads ALIVE AT THE SAME TIME, all spawned by `tid`: each
    /// sets mode `(m + i) % 8`; then every one of them (and `tid`) reads its
    /// mode back and rounds a witness; then they exit, newest first.
    /// (Bounded per-thread slot tables overflow only now.)
    Crowd { n: u16, m: u8 },
}

#[derive(Clone, PartialEq, Eq, Debug)]
pub struct Step {
    pub tid: u32,
    pub action: Action,
    /// Op/Die only, hooks build only (`--cfg fpdec_verif`): 1-based indices of
    /// the library's scheduling points at which the thread hands the baton
    /// back in the MIDDLE of the operation.  Ignored by the hook-free build.
    pub yields: Vec<u16>,
}

impl Step {
    pub fn new(tid: u32, action: Action) -> Step {
        Step { tid, action, yields: Vec::new() }
    }
}

#[derive(Clone, PartialEq, Eq, Debug, Default)]
pub struct Plan {
    /// L3 reference: one fresh OS thread per event instead of one per run
    pub ref_per_event: bool,
    /// L3 reference evaluated in a SEPARATE PROCESS (`sim refeval`): no
    /// process-wide state (caches, memo tables, counters) is shared between
    /// the simulated execution and its reference
    pub ref_process: bool,
    /// arm the TLS-destructor probe on the root thread at its start
    pub root_probe_early: bool,
    pub root_api_builder: bool,
    /// T0 is the PROCESS'S MAIN THREAD (executed inline by the runner).  One
    /// such run per process: the main thread's TLS outlives the run.
    pub root_is_main: bool,
    pub steps: Vec<Step>,
    /// informational (seed, index, swarm configuration)
    pub note: String,
}

#[derive(Clone, PartialEq, Eq, Debug, Default)]
pub struct Session {
    pub plans: Vec<Plan>,
}

fn tname(t: u32) -> String {
    if t == ALL {
        "*".into()
    } else {
        format!("T{}", t)
    }
}

impl Step {
    fn yields_text(&self) -> String {
        if self.yields.is_empty() {
            String::new()
        } else {
            let v: Vec<String> = self.yields.iter().map(|y| y.to_string()).collect();
            format!(" @y={}", v.join(","))
        }
    }

    pub fn to_text(&self) -> String {
        let t = tname(self.tid);
        match &self.action {
            Action::Spawn { child, api, probe_early } => format!(
                "{} spawn T{} api={} probe={}",
                t,
                child,
                match api {
                    Api::Std => "std",
                    Api::Builder => "builder",
                },
                if *probe_early { "early" } else { "none" }
            ),
            Action::Set(m) => format!("{} set {}", t, MODE_NAMES[*m as usize]),
            Action::Read => format!("{} read", t),
            Action::Op(op) => format!("{} op {}{}", t, op.to_text(), self.yields_text()),
            Action::Resume => format!("{} resume", t),
            Action::Die(op) => format!("{} die {}{}", t, op.to_text(), self.yields_text()),
            Action::Exit { probe_late } => format!(
                "{} exit probe={}",
                t,
                if *probe_late { "late" } else { "none" }
            ),
            Action::Sweep => "* sweep".to_string(),
            Action::Burst { op, k } => format!("{} burst {} {}", t, k, op.to_text()),
            Action::Churn { n, m } => format!("{} churn n={} m={}", t, n, MODE_NAMES[*m as usize]),
            Action::Crowd { n, m } => format!("{} crowd n={} m={}", t, n, MODE_NAMES[*m as usize]),
        }
    }

    pub fn parse(line: &str) -> Result<Step, String> {
        let mut toks: Vec<&str> = line.split_whitespace().collect();
        let mut yields: Vec<u16> = Vec::new();
        if let Some(pos) = toks.iter().position(|t| t.starts_with("@y=")) {
            for x in toks[pos][3..].split(',') {
                yields.push(x.parse::<u16>().map_err(|e| format!("{}: {}", line, e))?);
            }
            toks.remove(pos);
        }
        if toks.len() < 2 {
            return Err(format!("bad step: {}", line));
        }
        let tid = if toks[0] == "*" {
            ALL
        } else if let Some(n) = toks[0].strip_prefix('T') {
            n.parse::<u32>().map_err(|e| format!("{}: {}", toks[0], e))?
        } else {
            return Err(format!("bad thread name: {}", toks[0]));
        };
        let kv = |k: &str| -> Option<&str> {
            toks.iter().find_map(|t| {
                t.strip_prefix(k).and_then(|r| r.strip_prefix('='))
            })
        };
        let action = match toks[1] {
            "spawn" => {
                let c = toks
                    .get(2)
                    .and_then(|c| c.strip_prefix('T'))
                    .ok_or_else(|| format!("spawn needs a child: {}", line))?
                    .parse::<u32>()
                    .map_err(|e| format!("{}: {}", line, e))?;
                Action::Spawn {
                    child: c,
                    api: match kv("api") {
                        Some("builder") => Api::Builder,
                        _ => Api::Std,
                    },
                    probe_early: kv("probe") == Some("early"),
                }
            }
            "set" => Action::Set(
                toks.get(2)
                    .and_then(|m| mode_from_name(m))
                    .ok_or_else(|| format!("bad mode: {}", line))?,
            ),
            "read" => Action::Read,
            "op" => Action::Op(Op::parse(&toks[2..])?),
            "resume" => Action::Resume,
            "die" => Action::Die(Op::parse(&toks[2..])?),
            "exit" => Action::Exit { probe_late: kv("probe") == Some("late") },
            "sweep" => Action::Sweep,
            "burst" => Action::Burst {
                k: toks
                    .get(2)
                    .and_then(|v| v.parse::<u32>().ok())
                    .ok_or_else(|| format!("burst needs a count: {}", line))?,
                op: Op::parse(&toks[3..])?,
            },
            "crowd" => Action::Crowd {
                n: kv("n")
                    .and_then(|v| v.parse::<u16>().ok())
                    .ok_or_else(|| format!("crowd needs n=: {}", line))?,
                m: kv("m")
                    .and_then(mode_from_name)
                    .ok_or_else(|| format!("crowd needs m=<mode>: {}", line))?,
            },
            "churn" => Action::Churn {
                n: kv("n")
                    .and_then(|v| v.parse::<u16>().ok())
                    .ok_or_else(|| format!("churn needs n=: {}", line))?,
                m: kv("m")
                    .and_then(mode_from_name)
                    .ok_or_else(|| format!("churn needs m=<mode>: {}", line))?,
            },
            other => return Err(format!("unknown action {}: {}", other, line)),
        };
        if (tid == ALL) != (action == Action::Sweep) {
            return Err(format!("'*' is for sweep only: {}", line));
        }
        Ok(Step { tid, action, yields })
    }
}

pub const HEADER: &str = "fpdec-sim-session 1";

impl Plan {
    pub fn to_text(&self) -> String {
        let mut s = String::new();
        s.push_str("run\n");
        if !self.note.is_empty() {
            for l in self.note.lines() {
                s.push_str(&format!("# {}\n", l));
            }
        }
        s.push_str(&format!(
            "opt ref={} rootprobe={} rootapi={}{}\n",
            if self.ref_process {
                "process"
            } else if self.ref_per_event {
                "per-event"
            } else {
                "shared"
            },
            if self.root_probe_early { "early" } else { "none" },
            if self.root_api_builder { "builder" } else { "std" },
            if self.root_is_main { " rootmain=yes" } else { "" },
        ));
        for st in &self.steps {
            s.push_str(&st.to_text());
            s.push('\n');
        }
        s
    }
}

impl Session {
    pub fn single(p: Plan) -> Session {
        Session { plans: vec![p] }
    }

    pub fn to_text(&self) -> String {
        let mut s = String::new();
        s.push_str(HEADER);
        s.push('\n');
        for p in &self.plans {
            s.push_str(&p.to_text());
        }
        s
    }

    /// Lines starting with `#` are comments; `#!` lines (violation summary
    /// written by the driver) are comments too.
    pub fn parse(text: &str) -> Result<Session, String> {
        // `#!` lines (violation summary written by the driver) and blank
        // lines are dropped; `# ` lines are kept as the run's note
        let mut lines = text.lines().filter(|l| {
            let t = l.trim();
            !t.is_empty() && !t.starts_with("#!")
        });
        match lines.next() {
            Some(h) if h.trim() == HEADER => {}
            other => {
                return Err(format!(
                    "not a session file (first line {:?})",
                    other
                ))
            }
        }
        let mut plans: Vec<Plan> = Vec::new();
        for l in lines {
            let t = l.trim();
            if t == "run" {
                plans.push(Plan::default());
                continue;
            }
            if let Some(c) = t.strip_prefix('#') {
                if let Some(cur) = plans.last_mut() {
                    if !cur.note.is_empty() {
                        cur.note.push('\n');
                    }
                    cur.note.push_str(c.trim());
                }
                continue;
            }
            let cur = plans
                .last_mut()
                .ok_or_else(|| "step before first 'run'".to_string())?;
            if let Some(rest) = t.strip_prefix("opt ") {
                for kv in rest.split_whitespace() {
                    match kv {
                        "ref=per-event" => cur.ref_per_event = true,
                        "ref=process" => cur.ref_process = true,
                        "ref=shared" => {
                            cur.ref_per_event = false;
                            cur.ref_process = false;
                        }
                        "rootprobe=early" => cur.root_probe_early = true,
                        "rootprobe=none" => cur.root_probe_early = false,
                        "rootapi=builder" => cur.root_api_builder = true,
                        "rootapi=std" => cur.root_api_builder = false,
                        "rootmain=yes" => cur.root_is_main = true,
                        "rootmain=no" => cur.root_is_main = false,
                        other => return Err(format!("bad opt {}", other)),
                    }
                }
                continue;
            }
            cur.steps.push(Step::parse(t)?);
        }
        if plans.is_empty() {
            return Err("session without runs".into());
        }
        Ok(Session { plans })
    }
}
