//! The simulated workload: every operation of the public `fpdec` API whose
//! result depends on the calling thread's default rounding mode (plus a few
//! mode-independent controls), executed against the *real* library.
//!
//! An `Op` is plain data (so plans can be printed, parsed, minimised);
//! `exec` runs it through the public API and returns an `Outcome` that can be
//! compared for equality.

use std::fmt::{self, Write as _};
use std::panic::{catch_unwind, AssertUnwindSafe};

use fpdec::{
    CheckedDiv, CheckedMul, Decimal, DivRounded, MulRounded, Quantize, Round,
    RoundingMode,
};

pub const MODES: [RoundingMode; 8] = [
    RoundingMode::Round05Up,
    RoundingMode::RoundCeiling,
    RoundingMode::RoundDown,
    RoundingMode::RoundFloor,
    RoundingMode::RoundHalfDown,
    RoundingMode::RoundHalfEven,
    RoundingMode::RoundHalfUp,
    RoundingMode::RoundUp,
];
pub const MODE_NAMES: [&str; 8] = [
    "05Up", "Ceiling", "Down", "Floor", "HalfDown", "HalfEven", "HalfUp", "Up",
];
pub const HALF_EVEN: u8 = 5;

pub fn mode_index(m: RoundingMode) -> u8 {
    match m {
        RoundingMode::Round05Up => 0,
        RoundingMode::RoundCeiling => 1,
        RoundingMode::RoundDown => 2,
        RoundingMode::RoundFloor => 3,
        RoundingMode::RoundHalfDown => 4,
        RoundingMode::RoundHalfEven => 5,
        RoundingMode::RoundHalfUp => 6,
        RoundingMode::RoundUp => 7,
        // a variant added to the library later must not break the harness
        #[allow(unreachable_patterns)]
        _ => 255,
    }
}

pub fn mode_from_name(s: &str) -> Option<u8> {
    MODE_NAMES.iter().position(|n| *n == s).map(|i| i as u8)
}

/// (coefficient, number of fractional digits)
pub type Dec = (i128, u8);

#[derive(Clone, Copy, PartialEq, Eq, Debug, PartialOrd, Ord)]
pub enum IntTy {
    U8,
    I8,
    U16,
    I16,
    U32,
    I32,
    U64,
    I64,
    I128,
}

pub const INT_TYS: [IntTy; 9] = [
    IntTy::U8,
    IntTy::I8,
    IntTy::U16,
    IntTy::I16,
    IntTy::U32,
    IntTy::I32,
    IntTy::U64,
    IntTy::I64,
    IntTy::I128,
];

impl IntTy {
    pub fn name(self) -> &'static str {
        match self {
            IntTy::U8 => "u8",
            IntTy::I8 => "i8",
            IntTy::U16 => "u16",
            IntTy::I16 => "i16",
            IntTy::U32 => "u32",
            IntTy::I32 => "i32",
            IntTy::U64 => "u64",
            IntTy::I64 => "i64",
            IntTy::I128 => "i128",
        }
    }
    pub fn from_name(s: &str) -> Option<IntTy> {
        INT_TYS.iter().copied().find(|t| t.name() == s)
    }
    pub fn range(self) -> (i128, i128) {
        match self {
            IntTy::U8 => (0, u8::MAX as i128),
            IntTy::I8 => (i8::MIN as i128, i8::MAX as i128),
            IntTy::U16 => (0, u16::MAX as i128),
            IntTy::I16 => (i16::MIN as i128, i16::MAX as i128),
            IntTy::U32 => (0, u32::MAX as i128),
            IntTy::I32 => (i32::MIN as i128, i32::MAX as i128),
            IntTy::U64 => (0, u64::MAX as i128),
            IntTy::I64 => (i64::MIN as i128, i64::MAX as i128),
            IntTy::I128 => (i128::MIN, i128::MAX),
        }
    }
    pub fn fits(self, v: i128) -> bool {
        let (lo, hi) = self.range();
        lo <= v && v <= hi
    }
    pub fn signed(self) -> bool {
        matches!(
            self,
            IntTy::I8 | IntTy::I16 | IntTy::I32 | IntTy::I64 | IntTy::I128
        )
    }
}

/// A native integer operand: its type and its value (which fits the type).
#[derive(Clone, Copy, PartialEq, Eq, Debug)]
pub struct Int {
    pub ty: IntTy,
    pub v: i128,
}

pub const NOPREC: u8 = 255;

#[derive(Clone, PartialEq, Eq, Debug)]
pub enum Op {
    Round { a: Dec, n: i8 },
    CheckedRound { a: Dec, n: i8 },
    /// form: 0 `a*b`, 1 `&a*b`, 2 `a*&b`, 3 `&a*&b`, 4 `a *= b`
    Mul { a: Dec, b: Dec, form: u8 },
    /// CheckedMul never rounds (None if more than 18 fractional digits): a control.
    CheckedMul { a: Dec, b: Dec },
    /// form as for Mul (4 = `a /= b`)
    Div { a: Dec, b: Dec, form: u8 },
    DivDI { a: Dec, i: Int, form: u8 },
    DivID { i: Int, b: Dec, form: u8 },
    CheckedDiv { a: Dec, b: Dec, form: u8 },
    CheckedDivDI { a: Dec, i: Int },
    CheckedDivID { i: Int, b: Dec },
    MulRounded { a: Dec, b: Dec, n: u8, form: u8 },
    DivRounded { a: Dec, b: Dec, n: u8, form: u8 },
    DivRoundedDI { a: Dec, i: Int, n: u8, form: u8 },
    DivRoundedID { i: Int, b: Dec, n: u8, form: u8 },
    /// both integers have the type of `i`
    DivRoundedII { i: Int, j: i128, n: u8, form: u8 },
    Quantize { a: Dec, q: Dec, form: u8 },
    QuantizeDI { a: Dec, i: Int },
    QuantizeID { i: Int, q: Dec },
    QuantizeII { i: Int, j: i128 },
    /// `write!(sink, "{:<flags><w>.<p>}", a)`; `p == NOPREC` ⇒ no precision.
    /// `pauses`: 1-based indices of sink writes at which the simulated thread
    /// hands the baton back (mid-operation pre-emption); `err_at`: 1-based
    /// index of the sink write that fails (0 = never).
    /// `reent`: the sink itself calls `RoundingMode::default()` (and rounds a
    /// witness) inside every `write_str` — re-entrant access from a callback
    /// that runs in the middle of the library's Display code.
    Fmt { a: Dec, var: u8, w: u8, p: u8, pauses: Vec<u16>, err_at: u16, reent: bool },
    /// `to_string()` — never rounds: a control.
    ToStr { a: Dec },
    /// `write!(sink, "{:.p$}", a)` into a sink that calls
    /// `RoundingMode::set_default(m)` itself at its first write (a user
    /// callback in the middle of the library's Display code changing the
    /// thread's mode) and reads it back.  Afterwards the thread's mode is `m`.
    FmtSet { a: Dec, p: u8, m: u8 },
    /// Any OTHER public API call (conversions from/to floats, integers and
    /// strings incl. their error paths, +, -, %, checked variants, unary ops,
    /// comparisons, hashing, Debug): none of them has any business with the
    /// rounding mode, so the thread's mode must be the same afterwards and the
    /// result must not depend on it.  `which` selects the call (MISC_NAMES),
    /// `x` is an f64 bit pattern, `s` a literal (no blanks).
    Misc { which: u8, a: Dec, b: Dec, x: u64, s: String },
}

#[cfg(feature = "allfeatures")]
pub const MISC_NAMES: [&str; 24] = [
    "from_f64",
    "from_f32",
    "from_str",
    "to_f64",
    "to_f32",
    "to_int",
    "add",
    "sub",
    "checked_add_sub",
    "rem",
    "checked_rem",
    "unary",
    "cmp_hash",
    "ratio_magnitude",
    "debug",
    "from_int",
    "int_arith",
    "int_checked",
    "assign_ops",
    "predicates_string",
    "from_str_variants",
    "serde_json",
    "num_traits",
    "rkyv",
];

#[cfg(not(feature = "allfeatures"))]
pub const MISC_NAMES: [&str; 21] = [
    "from_f64",
    "from_f32",
    "from_str",
    "to_f64",
    "to_f32",
    "to_int",
    "add",
    "sub",
    "checked_add_sub",
    "rem",
    "checked_rem",
    "unary",
    "cmp_hash",
    "ratio_magnitude",
    "debug",
    "from_int",
    "int_arith",
    "int_checked",
    "assign_ops",
    "predicates_string",
    "from_str_variants",
];

pub const N_FMT_VARIANTS: u8 = 14;

#[derive(Clone, PartialEq, Eq, Debug)]
pub enum Outcome {
    Dec(i128, u8),
    /// `None` from a checked operation
    Nothing,
    Panicked,
    Text { out: String, ok: bool },
    Mode(u8),
    Unit,
}

impl Outcome {
    pub fn show(&self) -> String {
        match self {
            Outcome::Dec(c, s) => format!("dec:{}/{}", c, s),
            Outcome::Nothing => "none".into(),
            Outcome::Panicked => "panic".into(),
            Outcome::Text { out, ok } => {
                format!("text:{:?}:{}", out, if *ok { "ok" } else { "err" })
            }
            Outcome::Mode(m) => format!("mode:{}", MODE_NAMES[*m as usize]),
            Outcome::Unit => "unit".into(),
        }
    }
}

#[inline]
fn d(x: Dec) -> Decimal {
    Decimal::new_raw(x.0, x.1)
}

#[inline]
fn out(x: Decimal) -> Outcome {
    Outcome::Dec(x.coefficient(), x.n_frac_digits())
}

#[inline]
fn out_opt(x: Option<Decimal>) -> Outcome {
    match x {
        Some(x) => out(x),
        None => Outcome::Nothing,
    }
}

macro_rules! with_int {
    ($int:expr, |$x:ident| $body:expr) => {{
        let __i: Int = $int;
        match __i.ty {
            IntTy::U8 => {
                let $x = __i.v as u8;
                $body
            }
            IntTy::I8 => {
                let $x = __i.v as i8;
                $body
            }
            IntTy::U16 => {
                let $x = __i.v as u16;
                $body
            }
            IntTy::I16 => {
                let $x = __i.v as i16;
                $body
            }
            IntTy::U32 => {
                let $x = __i.v as u32;
                $body
            }
            IntTy::I32 => {
                let $x = __i.v as i32;
                $body
            }
            IntTy::U64 => {
                let $x = __i.v as u64;
                $body
            }
            IntTy::I64 => {
                let $x = __i.v as i64;
                $body
            }
            IntTy::I128 => {
                let $x = __i.v as i128;
                $body
            }
        }
    }};
}

// Same as with_int but binds two values of the same type.
macro_rules! with_int2 {
    ($int:expr, $j:expr, |$x:ident, $y:ident| $body:expr) => {{
        let __i: Int = $int;
        let __j: i128 = $j;
        match __i.ty {
            IntTy::U8 => {
                let ($x, $y) = (__i.v as u8, __j as u8);
                $body
            }
            IntTy::I8 => {
                let ($x, $y) = (__i.v as i8, __j as i8);
                $body
            }
            IntTy::U16 => {
                let ($x, $y) = (__i.v as u16, __j as u16);
                $body
            }
            IntTy::I16 => {
                let ($x, $y) = (__i.v as i16, __j as i16);
                $body
            }
            IntTy::U32 => {
                let ($x, $y) = (__i.v as u32, __j as u32);
                $body
            }
            IntTy::I32 => {
                let ($x, $y) = (__i.v as i32, __j as i32);
                $body
            }
            IntTy::U64 => {
                let ($x, $y) = (__i.v as u64, __j as u64);
                $body
            }
            IntTy::I64 => {
                let ($x, $y) = (__i.v as i64, __j as i64);
                $body
            }
            IntTy::I128 => {
                let ($x, $y) = (__i.v as i128, __j as i128);
                $body
            }
        }
    }};
}

// binary operator in the four value/reference forms
macro_rules! binop_forms {
    ($form:expr, $a:expr, $b:expr, $op:tt) => {
        match $form {
            0 => $a $op $b,
            1 => &$a $op $b,
            2 => $a $op &$b,
            _ => &$a $op &$b,
        }
    };
}

// trait method `Trait::m(a, b, n)` in the four value/reference forms
macro_rules! method3_forms {
    ($form:expr, $tr:ident :: $m:ident, $a:expr, $b:expr, $n:expr) => {
        match $form {
            0 => $tr::$m($a, $b, $n),
            1 => $tr::$m(&$a, $b, $n),
            2 => $tr::$m($a, &$b, $n),
            _ => $tr::$m(&$a, &$b, $n),
        }
    };
}

macro_rules! method2_forms {
    ($form:expr, $tr:ident :: $m:ident, $a:expr, $b:expr) => {
        match $form {
            0 => $tr::$m($a, $b),
            1 => $tr::$m(&$a, $b),
            2 => $tr::$m($a, &$b),
            _ => $tr::$m(&$a, &$b),
        }
    };
}

/// The simulator's `fmt::Write` seam.  Records the bytes, counts the write
/// calls, can fail at the k-th write and can call back (to hand the baton to
/// the scheduler) at chosen writes.
pub struct SimSink<'a> {
    pub buf: String,
    pub n_writes: u16,
    pub err_at: u16,
    pub pauses: &'a [u16],
    pub on_pause: &'a mut dyn FnMut(u16),
    pub n_paused: u16,
    pub err_fired: bool,
    pub reent: bool,
    /// modes seen by re-entrant `default()` calls (255: the call panicked)
    pub reent_modes: [u8; 12],
    pub n_reent: u8,
    /// witness roundings performed re-entrantly, as text
    pub reent_obs: String,
}

impl<'a> fmt::Write for SimSink<'a> {
    fn write_str(&mut self, s: &str) -> fmt::Result {
        self.n_writes += 1;
        if self.reent && (self.n_reent as usize) < self.reent_modes.len() {
            // a callback running in the middle of the library's Display code
            // asks for the thread's mode and rounds once
            let m = catch_unwind(|| mode_index(RoundingMode::default()))
                .unwrap_or(255);
            self.reent_modes[self.n_reent as usize] = m;
            self.n_reent += 1;
            let r = catch_unwind(|| {
                let x = Decimal::new_raw(25, 1).round(0);
                let y = Decimal::new_raw(-27, 1).round(0);
                (x.coefficient(), y.coefficient())
            });
            match r {
                Ok((x, y)) => self.reent_obs.push_str(&format!("[{},{}]", x, y)),
                Err(_) => self.reent_obs.push_str("[panic]"),
            }
        }
        if self.pauses.contains(&self.n_writes) {
            self.n_paused += 1;
            (self.on_pause)(self.n_writes);
        }
        if self.err_at != 0 && self.n_writes == self.err_at {
            self.err_fired = true;
            return Err(fmt::Error);
        }
        self.buf.push_str(s);
        Ok(())
    }
}

macro_rules! fmt_variants {
    ($sink:expr, $x:expr, $var:expr, $w:expr, $p:expr; $( $idx:literal => $wp:literal, $nop:literal );* $(;)?) => {
        match ($var, $p == NOPREC as usize) {
            $(
                ($idx, false) => write!($sink, $wp, $x, w = $w, p = $p),
                ($idx, true) => write!($sink, $nop, $x, w = $w),
            )*
            _ => unreachable!("fmt variant"),
        }
    };
}

/// Extra information about the sink's life during one Fmt op.
#[derive(Clone, Copy, Debug)]
pub struct SinkInfo {
    /// FmtSet: what default() returned right after the sink's own
    /// set_default (255: not applicable / the calls panicked)
    pub set_in_sink_readback: u8,
    /// mode read by a Drop guard WHILE THE THREAD WAS UNWINDING out of the
    /// operation (254: the operation did not panic, 255: the read panicked)
    pub unwind_mode: u8,
    pub writes: u16,
    pub paused: u16,
    pub err_fired: bool,
    pub reent_modes: [u8; 12],
    pub n_reent: u8,
    /// hooks build: pre-emptions at library scheduling points (set by the engine)
    pub ypaused: u16,
    pub yhits: u16,
}

impl Default for SinkInfo {
    fn default() -> Self {
        SinkInfo {
            set_in_sink_readback: 255,
            unwind_mode: 254,
            writes: 0,
            paused: 0,
            err_fired: false,
            reent_modes: [0; 12],
            n_reent: 0,
            ypaused: 0,
            yhits: 0,
        }
    }
}

fn exec_fmt(
    a: Dec,
    var: u8,
    w: u8,
    p: u8,
    pauses: &[u16],
    err_at: u16,
    reent: bool,
    on_pause: &mut dyn FnMut(u16),
    info: &mut SinkInfo,
) -> Outcome {
    let x = d(a);
    let mut sink = SimSink {
        buf: String::new(),
        n_writes: 0,
        err_at,
        pauses,
        on_pause,
        n_paused: 0,
        err_fired: false,
        reent,
        reent_modes: [0; 12],
        n_reent: 0,
        reent_obs: String::new(),
    };
    let w = w as usize;
    let p = p as usize;
    let var = var % N_FMT_VARIANTS;
    // variant 0 has no width; `w` is passed but unused there
    let res = if var == 0 {
        if p == NOPREC as usize {
            write!(sink, "{}", x)
        } else {
            write!(sink, "{:.p$}", x, p = p)
        }
    } else {
        fmt_variants!(sink, x, var, w, p;
            1 => "{:w$.p$}", "{:w$}";
            2 => "{:<w$.p$}", "{:<w$}";
            3 => "{:^w$.p$}", "{:^w$}";
            4 => "{:>w$.p$}", "{:>w$}";
            5 => "{:+w$.p$}", "{:+w$}";
            6 => "{:0w$.p$}", "{:0w$}";
            7 => "{:+0w$.p$}", "{:+0w$}";
            8 => "{:*<w$.p$}", "{:*<w$}";
            9 => "{:_>w$.p$}", "{:_>w$}";
            10 => "{:#w$.p$}", "{:#w$}";
            11 => "{:+#w$.p$}", "{:+#w$}";
            12 => "{:#0w$.p$}", "{:#0w$}";
            13 => "{:^+#w$.p$}", "{:^+#w$}";
        )
    };
    info.writes = sink.n_writes;
    info.paused = sink.n_paused;
    info.err_fired = sink.err_fired;
    info.reent_modes = sink.reent_modes;
    info.n_reent = sink.n_reent;
    let mut out = sink.buf;
    if reent {
        out.push_str(" reent:");
        out.push_str(&sink.reent_obs);
    }
    Outcome::Text { out, ok: res.is_ok() }
}

/// Run `op` through the public API.  May panic (the real code's panics).
pub fn exec(
    op: &Op,
    on_pause: &mut dyn FnMut(u16),
    info: &mut SinkInfo,
) -> Outcome {
    match op {
        Op::Round { a, n } => out(d(*a).round(*n)),
        Op::CheckedRound { a, n } => out_opt(d(*a).checked_round(*n)),
        Op::Mul { a, b, form } => {
            let (x, y) = (d(*a), d(*b));
            if *form == 4 {
                let mut z = x;
                z *= y;
                out(z)
            } else {
                out(binop_forms!(*form, x, y, *))
            }
        }
        Op::CheckedMul { a, b } => out_opt(d(*a).checked_mul(d(*b))),
        Op::Div { a, b, form } => {
            let (x, y) = (d(*a), d(*b));
            if *form == 4 {
                let mut z = x;
                z /= y;
                out(z)
            } else {
                out(binop_forms!(*form, x, y, /))
            }
        }
        Op::DivDI { a, i, form } => {
            let x = d(*a);
            with_int!(*i, |y| {
                if *form == 4 {
                    let mut z = x;
                    z /= y;
                    out(z)
                } else {
                    out(binop_forms!(*form, x, y, /))
                }
            })
        }
        Op::DivID { i, b, form } => {
            let y = d(*b);
            with_int!(*i, |x| out(binop_forms!(*form, x, y, /)))
        }
        Op::CheckedDiv { a, b, form } => {
            let (x, y) = (d(*a), d(*b));
            out_opt(method2_forms!(*form, CheckedDiv::checked_div, x, y))
        }
        Op::CheckedDivDI { a, i } => {
            let x = d(*a);
            with_int!(*i, |y| out_opt(CheckedDiv::checked_div(x, y)))
        }
        Op::CheckedDivID { i, b } => {
            let y = d(*b);
            with_int!(*i, |x| out_opt(CheckedDiv::checked_div(x, y)))
        }
        Op::MulRounded { a, b, n, form } => {
            let (x, y) = (d(*a), d(*b));
            out(method3_forms!(*form, MulRounded::mul_rounded, x, y, *n))
        }
        Op::DivRounded { a, b, n, form } => {
            let (x, y) = (d(*a), d(*b));
            out(method3_forms!(*form, DivRounded::div_rounded, x, y, *n))
        }
        Op::DivRoundedDI { a, i, n, form } => {
            let x = d(*a);
            with_int!(*i, |y| out(method3_forms!(
                *form,
                DivRounded::div_rounded,
                x,
                y,
                *n
            )))
        }
        Op::DivRoundedID { i, b, n, form } => {
            let y = d(*b);
            with_int!(*i, |x| out(method3_forms!(
                *form,
                DivRounded::div_rounded,
                x,
                y,
                *n
            )))
        }
        Op::DivRoundedII { i, j, n, form } => {
            with_int2!(*i, *j, |x, y| out(method3_forms!(
                *form,
                DivRounded::div_rounded,
                x,
                y,
                *n
            )))
        }
        Op::Quantize { a, q, form } => {
            let (x, y) = (d(*a), d(*q));
            out(match *form {
                0 => x.quantize(y),
                1 => (&x).quantize(y),
                2 => x.quantize(&y),
                _ => (&x).quantize(&y),
            })
        }
        Op::QuantizeDI { a, i } => {
            let x = d(*a);
            with_int!(*i, |y| out(x.quantize(y)))
        }
        Op::QuantizeID { i, q } => {
            let y = d(*q);
            with_int!(*i, |x| out(x.quantize(y)))
        }
        Op::QuantizeII { i, j } => {
            with_int2!(*i, *j, |x, y| out(x.quantize(y)))
        }
        Op::Fmt { a, var, w, p, pauses, err_at, reent } => {
            exec_fmt(*a, *var, *w, *p, pauses, *err_at, *reent, on_pause, info)
        }
        Op::ToStr { a } => Outcome::Text { out: d(*a).to_string(), ok: true },
        Op::FmtSet { a, p, m } => {
            struct SetSink {
                buf: String,
                m: u8,
                done: bool,
                readback: u8,
            }
            impl fmt::Write for SetSink {
                fn write_str(&mut self, s: &str) -> fmt::Result {
                    if !self.done {
                        self.done = true;
                        let m = self.m;
                        self.readback = catch_unwind(move || {
                            RoundingMode::set_default(MODES[m as usize]);
                            mode_index(RoundingMode::default())
                        })
                        .unwrap_or(255);
                    }
                    self.buf.push_str(s);
                    Ok(())
                }
            }
            let mut sink = SetSink { buf: String::new(), m: *m % 8, done: false, readback: 255 };
            let x = d(*a);
            let res = write!(sink, "{:.p$}", x, p = *p as usize);
            info.set_in_sink_readback = sink.readback;
            Outcome::Text {
                out: format!("{} set-in-sink:{}", sink.buf, sink.readback),
                ok: res.is_ok(),
            }
        }
        Op::Misc { which, a, b, x, s } => exec_misc(*which, *a, *b, *x, s),
    }
}

fn exec_misc(which: u8, a: Dec, b: Dec, x: u64, s: &str) -> Outcome {
    use core::hash::{Hash, Hasher};
    use fpdec::{AsIntegerRatio, CheckedAdd, CheckedRem, CheckedSub};
    use std::str::FromStr;
    let (da, db) = (d(a), d(b));
    let show = |r: Decimal| format!("{}/{}", r.coefficient(), r.n_frac_digits());
    let txt = match which % MISC_NAMES.len() as u8 {
        0 => match Decimal::try_from(f64::from_bits(x)) {
            Ok(r) => show(r),
            Err(e) => format!("err:{:?}", e),
        },
        1 => match Decimal::try_from(f64::from_bits(x) as f32) {
            Ok(r) => show(r),
            Err(e) => format!("err:{:?}", e),
        },
        2 => match Decimal::from_str(s) {
            Ok(r) => show(r),
            Err(e) => format!("err:{:?}", e),
        },
        3 => format!("{:016x}", f64::from(da).to_bits()),
        4 => format!("{:08x}", f32::from(da).to_bits()),
        5 => format!(
            "{:?} {:?} {:?} {:?}",
            i128::try_from(da).map_err(|e| format!("{:?}", e)),
            i64::try_from(da).map_err(|e| format!("{:?}", e)),
            u8::try_from(da).map_err(|e| format!("{:?}", e)),
            i16::try_from(db).map_err(|e| format!("{:?}", e))
        ),
        6 => show(da + db),
        7 => show(da - db),
        8 => format!(
            "{:?} {:?}",
            da.checked_add(db).map(show),
            da.checked_sub(db).map(show)
        ),
        9 => show(da % db),
        10 => format!("{:?}", da.checked_rem(db).map(show)),
        11 => format!(
            "{} {} {} {} {} {}",
            show(-da),
            show(da.abs()),
            show(da.floor()),
            show(da.ceil()),
            show(da.trunc()),
            show(da.fract())
        ),
        12 => {
            let mut h1 = std::collections::hash_map::DefaultHasher::new();
            let mut h2 = std::collections::hash_map::DefaultHasher::new();
            da.hash(&mut h1);
            db.hash(&mut h2);
            format!(
                "{:?} {} {} {} {}",
                da.cmp(&db),
                da == db,
                da < db,
                da == 25_i32,
                h1.finish() == h2.finish()
            )
        }
        13 => format!("{:?} {}", da.as_integer_ratio(), da.magnitude()),
        14 => format!("{:?} {:?}", da, db),
        15 => show(Decimal::from(a.0 as i64)) + " " + &show(Decimal::from(b.1)),
        16 => {
            // Decimal (op) int and int (op) Decimal, the exact operators
            let i = (b.0 % 1000) as i32;
            let j = (b.1 as u64) + 2;
            format!(
                "{} {} {} {} {} {}",
                show(da + i),
                show(i - da),
                show(da * i),
                show(j * da),
                show(da % j),
                da < i
            )
        }
        17 => {
            use fpdec::{CheckedAdd as CA, CheckedMul as CM, CheckedRem as CR, CheckedSub as CS};
            let i = (b.0 % 1000) as i64;
            format!(
                "{:?} {:?} {:?} {:?} {:?}",
                CA::checked_add(da, i).map(show),
                CS::checked_sub(i, da).map(show),
                CM::checked_mul(da, i).map(show),
                CM::checked_mul(i, da).map(show),
                CR::checked_rem(da, if i == 0 { 7 } else { i }).map(show)
            )
        }
        18 => {
            let mut z = da;
            z += db;
            let mut y = da;
            y -= db;
            let mut w = da;
            w %= db;
            let mut v = da;
            v *= 3_i32;
            let mut u = da;
            u += 5_u8;
            format!("{} {} {} {} {}", show(z), show(y), show(w), show(v), show(u))
        }
        19 => {
            let st: String = da.into();
            format!(
                "{} {} {} {} {} {:?}",
                da.eq_zero(),
                da.eq_one(),
                da.is_negative(),
                da.is_positive(),
                st,
                Decimal::try_from(b.0.unsigned_abs()).map(show).map_err(|e| format!("{:?}", e))
            )
        }
        20 => format!(
            "{:?} {:?}",
            Decimal::try_from(s).map(show).map_err(|e| format!("{:?}", e)),
            Decimal::try_from(s.to_string()).map(show).map_err(|e| format!("{:?}", e))
        ),
        #[cfg(feature = "allfeatures")]
        21 => {
            let js = serde_json::to_string(&da).map_err(|e| e.to_string());
            let back = js
                .clone()
                .and_then(|j| serde_json::from_str::<Decimal>(&j).map_err(|e| e.to_string()))
                .map(show);
            let parsed = serde_json::from_str::<Decimal>(&format!("{:?}", s))
                .map(show)
                .map_err(|_| "err".to_string());
            format!("{:?} {:?} {:?}", js, back, parsed)
        }
        #[cfg(feature = "allfeatures")]
        22 => {
            use num_traits::{Num, One, Signed, Zero};
            format!(
                "{} {} {} {} {} {} {} {:?} {:?}",
                show(<Decimal as Zero>::zero()),
                Zero::is_zero(&da),
                show(<Decimal as One>::one()),
                One::is_one(&da),
                show(Signed::abs(&da)),
                show(Signed::abs_sub(&da, &db)),
                show(Signed::signum(&da)),
                <Decimal as Num>::from_str_radix(s, 10).map(show).map_err(|e| format!("{:?}", e)),
                <Decimal as Num>::from_str_radix(s, 16).map(show).map_err(|e| format!("{:?}", e))
            )
        }
        #[cfg(feature = "allfeatures")]
        23 => {
            use rkyv::Deserialize;
            let bytes = rkyv::to_bytes::<_, 256>(&da).map_err(|e| e.to_string());
            match bytes {
                Ok(bytes) => match rkyv::check_archived_root::<Decimal>(&bytes[..]) {
                    Ok(arch) => {
                        let back: Decimal = arch.deserialize(&mut rkyv::Infallible).unwrap();
                        format!(
                            "{} {} {} {:?}",
                            show(back),
                            *arch == da,
                            da == *arch,
                            arch.partial_cmp(&db).is_some()
                        )
                    }
                    Err(_) => "check-error".to_string(),
                },
                Err(e) => e,
            }
        }
        _ => "n/a".to_string(),
    };
    Outcome::Text { out: txt, ok: true }
}

/// `exec` under `catch_unwind`: a panic of the real code becomes
/// `Outcome::Panicked` (the message is deliberately not part of the outcome).
pub fn exec_caught(
    op: &Op,
    on_pause: &mut dyn FnMut(u16),
    info: &mut SinkInfo,
) -> Outcome {
    // A guard that lives across the call: if the operation panics, its Drop
    // runs WHILE THE THREAD IS UNWINDING and asks for the thread's mode there
    // (code that behaves differently under `std::thread::panicking()`, state
    // restored or reset by unwind guards inside the library).
    struct UnwindProbe<'a>(&'a std::cell::Cell<u8>);
    impl<'a> Drop for UnwindProbe<'a> {
        fn drop(&mut self) {
            if std::thread::panicking() {
                let m = catch_unwind(|| mode_index(RoundingMode::default())).unwrap_or(255);
                self.0.set(m);
            }
        }
    }
    let seen = std::cell::Cell::new(254u8);
    let r = catch_unwind(AssertUnwindSafe(|| {
        let _probe = UnwindProbe(&seen);
        exec(op, on_pause, info)
    }));
    info.unwind_mode = seen.get();
    match r {
        Ok(o) => o,
        Err(_) => Outcome::Panicked,
    }
}

/// `exec_caught` with pauses ignored (the reference side: the same call made
/// in isolation).
pub fn exec_plain(op: &Op) -> Outcome {
    let mut info = SinkInfo::default();
    exec_caught(op, &mut |_| {}, &mut info)
}

// ---------------------------------------------------------------------------
// kinds (for statistics, L2 grouping, swarm masks)

pub const KIND_NAMES: [&str; 23] = [
    "round",
    "checked_round",
    "mul",
    "checked_mul",
    "div",
    "div_di",
    "div_id",
    "checked_div",
    "checked_div_di",
    "checked_div_id",
    "mul_rounded",
    "div_rounded",
    "div_rounded_di",
    "div_rounded_id",
    "div_rounded_ii",
    "quantize",
    "quantize_di",
    "quantize_id",
    "quantize_ii",
    "fmt",
    "to_string",
    "misc",
    "fmt_set_in_sink",
];

impl Op {
    pub fn kind(&self) -> usize {
        match self {
            Op::Round { .. } => 0,
            Op::CheckedRound { .. } => 1,
            Op::Mul { .. } => 2,
            Op::CheckedMul { .. } => 3,
            Op::Div { .. } => 4,
            Op::DivDI { .. } => 5,
            Op::DivID { .. } => 6,
            Op::CheckedDiv { .. } => 7,
            Op::CheckedDivDI { .. } => 8,
            Op::CheckedDivID { .. } => 9,
            Op::MulRounded { .. } => 10,
            Op::DivRounded { .. } => 11,
            Op::DivRoundedDI { .. } => 12,
            Op::DivRoundedID { .. } => 13,
            Op::DivRoundedII { .. } => 14,
            Op::Quantize { .. } => 15,
            Op::QuantizeDI { .. } => 16,
            Op::QuantizeID { .. } => 17,
            Op::QuantizeII { .. } => 18,
            Op::Fmt { .. } => 19,
            Op::ToStr { .. } => 20,
            Op::Misc { .. } => 21,
            Op::FmtSet { .. } => 22,
        }
    }
    pub fn kind_name(&self) -> &'static str {
        KIND_NAMES[self.kind()]
    }
    /// Kinds that never consult the rounding mode (controls).
    pub fn is_control_kind(kind: usize) -> bool {
        kind == 3 || kind == 20 || kind == 21
    }
}

// ---------------------------------------------------------------------------
// text form

fn dec_s(x: Dec) -> String {
    format!("{}/{}", x.0, x.1)
}
fn int_s(i: Int) -> String {
    format!("{}:{}", i.ty.name(), i.v)
}

impl Op {
    pub fn to_text(&self) -> String {
        match self {
            Op::Round { a, n } => format!("round {} n={}", dec_s(*a), n),
            Op::CheckedRound { a, n } => {
                format!("checked_round {} n={}", dec_s(*a), n)
            }
            Op::Mul { a, b, form } => {
                format!("mul {} {} f={}", dec_s(*a), dec_s(*b), form)
            }
            Op::CheckedMul { a, b } => {
                format!("checked_mul {} {}", dec_s(*a), dec_s(*b))
            }
            Op::Div { a, b, form } => {
                format!("div {} {} f={}", dec_s(*a), dec_s(*b), form)
            }
            Op::DivDI { a, i, form } => {
                format!("div_di {} {} f={}", dec_s(*a), int_s(*i), form)
            }
            Op::DivID { i, b, form } => {
                format!("div_id {} {} f={}", int_s(*i), dec_s(*b), form)
            }
            Op::CheckedDiv { a, b, form } => {
                format!("checked_div {} {} f={}", dec_s(*a), dec_s(*b), form)
            }
            Op::CheckedDivDI { a, i } => {
                format!("checked_div_di {} {}", dec_s(*a), int_s(*i))
            }
            Op::CheckedDivID { i, b } => {
                format!("checked_div_id {} {}", int_s(*i), dec_s(*b))
            }
            Op::MulRounded { a, b, n, form } => format!(
                "mul_rounded {} {} n={} f={}",
                dec_s(*a),
                dec_s(*b),
                n,
                form
            ),
            Op::DivRounded { a, b, n, form } => format!(
                "div_rounded {} {} n={} f={}",
                dec_s(*a),
                dec_s(*b),
                n,
                form
            ),
            Op::DivRoundedDI { a, i, n, form } => format!(
                "div_rounded_di {} {} n={} f={}",
                dec_s(*a),
                int_s(*i),
                n,
                form
            ),
            Op::DivRoundedID { i, b, n, form } => format!(
                "div_rounded_id {} {} n={} f={}",
                int_s(*i),
                dec_s(*b),
                n,
                form
            ),
            Op::DivRoundedII { i, j, n, form } => format!(
                "div_rounded_ii {} {} n={} f={}",
                int_s(*i),
                j,
                n,
                form
            ),
            Op::Quantize { a, q, form } => {
                format!("quantize {} {} f={}", dec_s(*a), dec_s(*q), form)
            }
            Op::QuantizeDI { a, i } => {
                format!("quantize_di {} {}", dec_s(*a), int_s(*i))
            }
            Op::QuantizeID { i, q } => {
                format!("quantize_id {} {}", int_s(*i), dec_s(*q))
            }
            Op::QuantizeII { i, j } => {
                format!("quantize_ii {} {}", int_s(*i), j)
            }
            Op::Fmt { a, var, w, p, pauses, err_at, reent } => {
                let ps: Vec<String> =
                    pauses.iter().map(|x| x.to_string()).collect();
                format!(
                    "fmt {} v={} w={} p={} pause={} err={}{}",
                    dec_s(*a),
                    var,
                    w,
                    if *p == NOPREC { "-".to_string() } else { p.to_string() },
                    if ps.is_empty() { "-".to_string() } else { ps.join(",") },
                    err_at,
                    if *reent { " reent=1" } else { "" }
                )
            }
            Op::ToStr { a } => format!("to_string {}", dec_s(*a)),
            Op::FmtSet { a, p, m } => {
                format!("fmt_set {} p={} m={}", dec_s(*a), p, MODE_NAMES[(*m % 8) as usize])
            }
            Op::Misc { which, a, b, x, s } => format!(
                "misc {} {} k={} x={:016x} s={}",
                dec_s(*a),
                dec_s(*b),
                MISC_NAMES[(*which as usize) % MISC_NAMES.len()],
                x,
                if s.is_empty() { "-" } else { s }
            ),
        }
    }

    pub fn parse(tokens: &[&str]) -> Result<Op, String> {
        if tokens.is_empty() {
            return Err("empty op".into());
        }
        let name = tokens[0];
        let mut pos: Vec<&str> = Vec::new();
        let mut kv: Vec<(&str, &str)> = Vec::new();
        for t in &tokens[1..] {
            if let Some(ix) = t.find('=') {
                kv.push((&t[..ix], &t[ix + 1..]));
            } else {
                pos.push(t);
            }
        }
        let key = |k: &str| -> Result<&str, String> {
            kv.iter()
                .find(|(a, _)| *a == k)
                .map(|(_, v)| *v)
                .ok_or_else(|| format!("missing {}= in op {}", k, name))
        };
        let keynum = |k: &str| -> Result<i64, String> {
            key(k)?.parse::<i64>().map_err(|e| format!("{}={}: {}", k, key(k).unwrap_or(""), e))
        };
        let form = || -> Result<u8, String> {
            match kv.iter().find(|(a, _)| *a == "f") {
                None => Ok(0),
                Some((_, v)) => {
                    v.parse::<u8>().map_err(|e| format!("f=: {}", e))
                }
            }
        };
        let pdec = |ix: usize| -> Result<Dec, String> {
            let t = pos.get(ix).ok_or_else(|| format!("op {}: operand {} missing", name, ix))?;
            let sl = t.rfind('/').ok_or_else(|| format!("bad decimal {}", t))?;
            let c = t[..sl].parse::<i128>().map_err(|e| format!("{}: {}", t, e))?;
            let s = t[sl + 1..].parse::<u8>().map_err(|e| format!("{}: {}", t, e))?;
            Ok((c, s))
        };
        let pint = |ix: usize| -> Result<Int, String> {
            let t = pos.get(ix).ok_or_else(|| format!("op {}: operand {} missing", name, ix))?;
            let c = t.find(':').ok_or_else(|| format!("bad int {}", t))?;
            let ty = IntTy::from_name(&t[..c]).ok_or_else(|| format!("bad int type {}", t))?;
            let v = t[c + 1..].parse::<i128>().map_err(|e| format!("{}: {}", t, e))?;
            if !ty.fits(v) {
                return Err(format!("{} does not fit {}", v, ty.name()));
            }
            Ok(Int { ty, v })
        };
        let pj = |ix: usize, ty: IntTy| -> Result<i128, String> {
            let t = pos.get(ix).ok_or_else(|| format!("op {}: operand {} missing", name, ix))?;
            let v = t.parse::<i128>().map_err(|e| format!("{}: {}", t, e))?;
            if !ty.fits(v) {
                return Err(format!("{} does not fit {}", v, ty.name()));
            }
            Ok(v)
        };
        Ok(match name {
            "round" => Op::Round { a: pdec(0)?, n: keynum("n")? as i8 },
            "checked_round" => {
                Op::CheckedRound { a: pdec(0)?, n: keynum("n")? as i8 }
            }
            "mul" => Op::Mul { a: pdec(0)?, b: pdec(1)?, form: form()? },
            "checked_mul" => Op::CheckedMul { a: pdec(0)?, b: pdec(1)? },
            "div" => Op::Div { a: pdec(0)?, b: pdec(1)?, form: form()? },
            "div_di" => Op::DivDI { a: pdec(0)?, i: pint(1)?, form: form()? },
            "div_id" => Op::DivID { i: pint(0)?, b: pdec(1)?, form: form()? },
            "checked_div" => {
                Op::CheckedDiv { a: pdec(0)?, b: pdec(1)?, form: form()? }
            }
            "checked_div_di" => Op::CheckedDivDI { a: pdec(0)?, i: pint(1)? },
            "checked_div_id" => Op::CheckedDivID { i: pint(0)?, b: pdec(1)? },
            "mul_rounded" => Op::MulRounded {
                a: pdec(0)?,
                b: pdec(1)?,
                n: keynum("n")? as u8,
                form: form()?,
            },
            "div_rounded" => Op::DivRounded {
                a: pdec(0)?,
                b: pdec(1)?,
                n: keynum("n")? as u8,
                form: form()?,
            },
            "div_rounded_di" => Op::DivRoundedDI {
                a: pdec(0)?,
                i: pint(1)?,
                n: keynum("n")? as u8,
                form: form()?,
            },
            "div_rounded_id" => Op::DivRoundedID {
                i: pint(0)?,
                b: pdec(1)?,
                n: keynum("n")? as u8,
                form: form()?,
            },
            "div_rounded_ii" => {
                let i = pint(0)?;
                Op::DivRoundedII {
                    i,
                    j: pj(1, i.ty)?,
                    n: keynum("n")? as u8,
                    form: form()?,
                }
            }
            "quantize" => {
                Op::Quantize { a: pdec(0)?, q: pdec(1)?, form: form()? }
            }
            "quantize_di" => Op::QuantizeDI { a: pdec(0)?, i: pint(1)? },
            "quantize_id" => Op::QuantizeID { i: pint(0)?, q: pdec(1)? },
            "quantize_ii" => {
                let i = pint(0)?;
                Op::QuantizeII { i, j: pj(1, i.ty)? }
            }
            "fmt" => {
                let p = key("p")?;
                let p = if p == "-" {
                    NOPREC
                } else {
                    p.parse::<u8>().map_err(|e| format!("p=: {}", e))?
                };
                let pa = key("pause").unwrap_or("-");
                let mut pauses = Vec::new();
                if pa != "-" {
                    for x in pa.split(',') {
                        pauses.push(
                            x.parse::<u16>()
                                .map_err(|e| format!("pause=: {}", e))?,
                        );
                    }
                }
                Op::Fmt {
                    a: pdec(0)?,
                    var: keynum("v")? as u8,
                    w: keynum("w")? as u8,
                    p,
                    pauses,
                    err_at: keynum("err").unwrap_or(0) as u16,
                    reent: keynum("reent").unwrap_or(0) != 0,
                }
            }
            "to_string" => Op::ToStr { a: pdec(0)? },
            "fmt_set" => Op::FmtSet {
                a: pdec(0)?,
                p: keynum("p")? as u8,
                m: mode_from_name(key("m")?).ok_or("fmt_set: bad mode")?,
            },
            "misc" => {
                let k = key("k")?;
                let which = MISC_NAMES
                    .iter()
                    .position(|n| *n == k)
                    .ok_or_else(|| format!("unknown misc call {}", k))? as u8;
                let x = u64::from_str_radix(key("x")?, 16)
                    .map_err(|e| format!("x=: {}", e))?;
                let s = key("s")?;
                Op::Misc {
                    which,
                    a: pdec(0)?,
                    b: pdec(1)?,
                    x,
                    s: if s == "-" { String::new() } else { s.to_string() },
                }
            }
            other => return Err(format!("unknown op {}", other)),
        })
    }
}
