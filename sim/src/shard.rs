//! One shard = one process that simulates one run at a time.  Parallelism is
//! by process, so even a tree whose mode has become process-global cannot
//! make two simulations interfere.

use std::fs;
use std::io::Write;
use std::path::Path;
use std::time::Instant;

use crate::engine::{event_text, log_hash, sched_hash, RunResult, Runner, Violation};
use crate::gen::{gen_plan, N_KINDS, PERSONALITY_NAMES};
use crate::json::{arr, esc, str_arr, Obj};
use crate::ops::{KIND_NAMES, MODE_NAMES};
use crate::oracle::{judge, Judged, Stats, FAULT_NAMES};
use crate::plan::{Plan, Session};
use crate::prng::run_seed;

pub struct PlanOutcome {
    pub res: RunResult,
    pub judged: Judged,
    pub log_hash: u64,
    pub sched_hash: u64,
}

/// Execute one plan and judge it.  `global_last` carries, across the runs of
/// one process, the mode most recently set by any thread (reach accounting
/// for process-global failure classes only; never used by an oracle).
pub fn run_plan(
    plan: &Plan,
    global_last: &mut Option<u8>,
    stats: &mut Stats,
    watchdog_secs: Option<u64>,
    no_park: bool,
    server: Option<&mut crate::oracle::RefServer>,
) -> Result<PlanOutcome, String> {
    let mut runner = Runner::new(*global_last);
    runner.set_no_park(no_park);
    if let Some(w) = watchdog_secs {
        runner.set_watchdog(w);
    }
    let (res, gl) = runner.run(plan)?;
    *global_last = gl;
    let judged = if res.blocked {
        // threads are stuck (and may hold a lock of the library): no
        // reference can be computed in this process any more; what L1 saw
        // before the block stands, the rest of the run is undecided
        Judged { violations: res.violations.clone(), nontrivial: false }
    } else {
        judge(&res, plan.ref_per_event, plan.ref_process, server, stats)?
    };
    let lh = log_hash(&res.events);
    let sh = sched_hash(&res.events);
    stats.runs += 1;
    stats.plan_steps += plan.steps.len() as u64;
    if plan.ref_per_event {
        stats.ref_per_event_runs += 1;
    }
    stats.sched_hashes.insert(sh);
    if judged.nontrivial {
        stats.nontrivial_hashes.insert(lh);
    }
    stats.violations += judged.violations.len() as u64;
    Ok(PlanOutcome { res, judged, log_hash: lh, sched_hash: sh })
}

pub fn violation_json(v: &Violation) -> String {
    Obj::new()
        .str("signature", &v.signature())
        .str("layer", v.layer)
        .str("kind", &v.kind)
        .num("seq", v.seq)
        .num("step", if v.step == u32::MAX { -1 } else { v.step as i64 })
        .str("detail", &v.detail)
        .build()
}

fn write_u64s(path: &Path, xs: impl Iterator<Item = u64>) -> std::io::Result<()> {
    let mut f = std::io::BufWriter::new(fs::File::create(path)?);
    for x in xs {
        f.write_all(&x.to_le_bytes())?;
    }
    f.flush()
}

pub fn stats_json(s: &Stats) -> String {
    let kinds = Obj::new();
    let kinds = (0..N_KINDS).fold(kinds, |o, k| o.num(KIND_NAMES[k], s.op_kind[k]));
    let faults = (0..FAULT_NAMES.len())
        .fold(Obj::new(), |o, k| o.num(FAULT_NAMES[k], s.faults[k]));
    let pers = (0..PERSONALITY_NAMES.len())
        .fold(Obj::new(), |o, k| o.num(PERSONALITY_NAMES[k], s.personality[k]));
    Obj::new()
        .num("runs", s.runs)
        .num("fault_free_runs", s.fault_free_runs)
        .num("ref_per_event_runs", s.ref_per_event_runs)
        .num("ref_process_runs", s.ref_process_runs)
        .num("ref_server_runs", s.ref_server_runs)
        .num("plan_steps", s.plan_steps)
        .num("events", s.events)
        .num("skipped", s.skipped)
        .num("n_set", s.n_set)
        .num("n_read", s.n_read)
        .num("n_op", s.n_op)
        .num("n_spawn", s.n_spawn)
        .num("n_exit", s.n_exit)
        .num("n_die", s.n_die)
        .num("n_dtor", s.n_dtor)
        .num("n_paused", s.n_paused)
        .num("l1_checked", s.l1_checked)
        .num("l3_compared", s.l3_compared)
        .num("mode_sensitive_ops", s.mode_sensitive_ops)
        .num("disc_leak_ops", s.disc_leak_ops)
        .num("disc_leak_reads", s.disc_leak_reads)
        .num("disc_stale_ops", s.disc_stale_ops)
        .num("disc_stale_reads", s.disc_stale_reads)
        .num("disc_inherit_ops", s.disc_inherit_ops)
        .num("disc_inherit_reads", s.disc_inherit_reads)
        .num("disc_global_ops", s.disc_global_ops)
        .num("disc_global_reads", s.disc_global_reads)
        .num("disc_inflight_ops", s.disc_inflight_ops)
        .num("disc_inflight_foreign_ops", s.disc_inflight_foreign_ops)
        .num("yield_points_passed", s.yield_points_passed)
        .num("max_live", s.max_live)
        .num("dtor_missing", s.dtor_missing)
        .num("violations", s.violations)
        .raw("op_kind", kinds.build())
        .raw("faults", faults.build())
        .raw("personality", pers.build())
        .raw(
            "leak_pairs",
            arr(s.leak_pairs.iter().map(|x| x.to_string()).collect()),
        )
        .build()
}

pub struct ShardArgs {
    pub seed: u64,
    pub from: u64,
    pub to: u64,
    pub stride: u64,
    pub offset: u64,
    pub thorough: bool,
    pub out: String,
    pub dump_hashes: bool,
    pub no_park: bool,
    pub part: u64,
}

pub fn sample_text(plan: &Plan, po: &PlanOutcome) -> String {
    let mut s = String::new();
    s.push_str(&plan.to_text());
    s.push_str("-- event log --\n");
    for e in &po.res.events {
        s.push_str(&event_text(e));
        s.push('\n');
    }
    s
}

/// Returns the process exit code.
pub fn shard_main(a: ShardArgs) -> Result<i32, String> {
    let t0 = Instant::now();
    let mut stats = Stats::new();
    let mut global_last: Option<u8> = None;
    let out = Path::new(&a.out);
    fs::create_dir_all(out).map_err(|e| e.to_string())?;
    let tag = if a.part == 0 {
        format!("{:02}", a.offset)
    } else {
        format!("{:02}p{}", a.offset, a.part)
    };
    let mut blocked_at: Option<(u64, String)> = None;
    let mut samples: Vec<String> = Vec::new();
    let mut hashes: Vec<(u64, u64)> = Vec::new();
    let mut found: Option<(u64, Plan, Vec<Violation>, String)> = None;
    let timing = std::env::var("VERIF_TIMING").is_ok();
    // the verdict reference of this shard's runs lives in another process
    let mut server = Some(crate::oracle::RefServer::start()?);

    let mut idx = a.from + ((a.offset + a.stride - (a.from % a.stride)) % a.stride);
    while idx < a.to {
        let seed = run_seed(a.seed, idx);
        let g = gen_plan(seed, idx, a.thorough);
        stats.personality[g.cfg.personality] += 1;
        if g.cfg.fault_free() {
            stats.fault_free_runs += 1;
        }
        if g.cfg.personality == 5 {
            stats.faults[8] += 1;
        }
        let t_run = Instant::now();
        let po = run_plan(&g.plan, &mut global_last, &mut stats, None, a.no_park, server.as_mut())
            .map_err(|e| format!("run idx {}: {}", idx, e))?;
        if timing && t_run.elapsed().as_millis() >= 5 {
            eprintln!(
                "TIMING idx={} ms={} events={} churned={}",
                idx,
                t_run.elapsed().as_millis(),
                po.res.events.len(),
                po.res.churned
            );
        }
        if po.res.blocked {
            // undecided run; threads are stuck, this process has to end
            blocked_at = Some((idx, po.res.blocked_what.clone()));
        }
        if a.dump_hashes {
            hashes.push((idx, po.log_hash));
        }
        if samples.len() < 2 && po.judged.nontrivial && g.plan.steps.len() <= 16 {
            samples.push(sample_text(&g.plan, &po));
        }
        if !po.judged.violations.is_empty() {
            let log = sample_text(&g.plan, &po);
            found = Some((idx, g.plan.clone(), po.judged.violations.clone(), log));
            break;
        }
        if blocked_at.is_some() {
            break;
        }
        idx += a.stride;
    }

    write_u64s(&out.join(format!("sched-{}.u64", tag)), stats.sched_hashes.iter().copied())
        .map_err(|e| e.to_string())?;
    write_u64s(&out.join(format!("state-{}.u64", tag)), stats.state_hashes.iter().copied())
        .map_err(|e| e.to_string())?;
    write_u64s(
        &out.join(format!("nontrivial-{}.u64", tag)),
        stats.nontrivial_hashes.iter().copied(),
    )
    .map_err(|e| e.to_string())?;
    if a.dump_hashes {
        write_u64s(
            &out.join(format!("runhash-{}.u64", tag)),
            hashes.iter().flat_map(|(i, h)| [*i, *h]),
        )
        .map_err(|e| e.to_string())?;
    }

    let mut o = Obj::new()
        .num("shard", a.offset)
        .num("stride", a.stride)
        .num("seed", a.seed)
        .num("from", a.from)
        .num("to", a.to)
        .num("wall_s", format!("{:.3}", t0.elapsed().as_secs_f64()))
        .raw("stats", stats_json(&stats))
        .raw("samples", str_arr(&samples))
        .raw(
            "mode_names",
            arr(MODE_NAMES.iter().map(|m| esc(m)).collect()),
        );
    let code = if let Some((idx, plan, viols, log)) = found {
        let vfile = out.join(format!("violation-{}.session", tag));
        let mut text = String::new();
        text.push_str(&Session::single(plan).to_text());
        fs::write(&vfile, &text).map_err(|e| e.to_string())?;
        o = o
            .num("violation_idx", idx)
            .str("violation_file", &vfile.to_string_lossy())
            .str("violation_log", &log)
            .raw(
                "violation_list",
                arr(viols.iter().map(violation_json).collect()),
            );
        1
    } else if let Some((bidx, what)) = &blocked_at {
        o = o.num("blocked_idx", *bidx).str("blocked_what", what);
        3
    } else {
        0
    };
    fs::write(out.join(format!("shard-{}.json", tag)), o.build())
        .map_err(|e| e.to_string())?;
    Ok(code)
}

pub struct ReplayOutcome {
    pub signature: Option<String>,
    pub violations: Vec<Violation>,
    pub combined_hash: u64,
    pub text: String,
}

/// Execute a session (usually one plan) verbatim.
pub fn replay_session(
    session: &Session,
    watchdog_secs: Option<u64>,
) -> Result<ReplayOutcome, String> {
    let mut stats = Stats::new();
    let mut gl: Option<u8> = None;
    let mut text = String::new();
    let mut all: Vec<Violation> = Vec::new();
    let mut h = crate::prng::Fnv::default();
    // as in a shard: the verdict reference lives in another process, which
    // sees the same sequence of requests as the shard's did
    let mut server = Some(crate::oracle::RefServer::start()?);
    for (i, p) in session.plans.iter().enumerate() {
        let po = run_plan(p, &mut gl, &mut stats, watchdog_secs, false, server.as_mut())?;
        if po.res.blocked {
            text.push_str(&format!("UNDECIDED (blocked): {}\n", po.res.blocked_what));
        }
        h.u64(po.log_hash);
        text.push_str(&format!("== run {} ==\n", i));
        for e in &po.res.events {
            text.push_str(&event_text(e));
            text.push('\n');
        }
        for v in &po.judged.violations {
            text.push_str(&format!(
                "!! {} at seq {} ({}): {}\n",
                v.signature(),
                v.seq,
                if v.step == u32::MAX { "implicit end-of-run step".to_string() } else { format!("plan step {}", v.step) },
                v.detail
            ));
        }
        let blocked = po.res.blocked;
        all.extend(po.judged.violations.into_iter());
        if blocked {
            break;
        }
    }
    Ok(ReplayOutcome {
        signature: all.first().map(|v| v.signature()),
        violations: all,
        combined_hash: h.0,
        text,
    })
}

// ---------------------------------------------------------------------------
// Runs in which logical thread T0 is the PROCESS'S MAIN THREAD.  The main
// thread's TLS outlives a run, so each such run gets a process of its own.

pub const MAIN_SALT: u64 = 0x4D41_494E_5448_5244; // "MAINTHRD"

pub const FRESH_SALT: u64 = 0x4652_4553_4850_5243; // "FRESHPRC"

/// Plan of a run that gets a process of its own: `main` = T0 is the process's
/// main thread; otherwise an ordinary plan whose only difference from the
/// in-process batch is that no earlier run has touched the process.
pub fn main_plan(seed: u64, idx: u64, thorough: bool, main: bool) -> Plan {
    if !main {
        let mut g = gen_plan(run_seed(seed ^ FRESH_SALT, idx), idx, thorough);
        g.plan.ref_process = true;
        g.plan.note = format!("fresh-process run: {}", g.plan.note);
        return g.plan;
    }
    let mut g = gen_plan(run_seed(seed ^ MAIN_SALT, idx), idx, thorough);
    g.plan.root_is_main = true;
    g.plan.ref_process = true;
    g.plan.root_probe_early = false;
    g.plan.note = format!("main-thread run: {}", g.plan.note);
    g.plan
}

/// One run with T0 = main thread, in THIS process (call once per process).
pub fn mainrun(
    seed: u64,
    idx: u64,
    thorough: bool,
    out: &str,
    main: bool,
    no_park: bool,
) -> Result<i32, String> {
    let plan = main_plan(seed, idx, thorough, main);
    let mut stats = Stats::new();
    let mut gl = None;
    let po = run_plan(&plan, &mut gl, &mut stats, None, no_park, None)?;
    if po.res.blocked && po.judged.violations.is_empty() {
        println!("BLOCKED {}", po.res.blocked_what);
        return Ok(3);
    }
    println!(
        "MAINRUN idx={} events={} loghash={:016x} nontrivial={} leak={} inherit={} stale={} ops={} reads={} faults={}",
        idx,
        po.res.events.len(),
        po.log_hash,
        po.judged.nontrivial as u8,
        stats.disc_leak_ops + stats.disc_leak_reads,
        stats.disc_inherit_ops + stats.disc_inherit_reads,
        stats.disc_stale_ops + stats.disc_stale_reads,
        stats.l3_compared,
        stats.l1_checked,
        stats.faults.iter().sum::<u64>()
    );
    if let Some(v) = po.judged.violations.first() {
        fs::create_dir_all(out).map_err(|e| e.to_string())?;
        let f = Path::new(out).join(format!("{}viol-{}.session", if main { "main" } else { "fresh" }, idx));
        fs::write(&f, Session::single(plan.clone()).to_text()).map_err(|e| e.to_string())?;
        println!("SIGNATURE {}", v.signature());
        println!("DETAIL {}", v.detail.replace('\n', " "));
        println!("FILE {}", f.to_string_lossy());
        return Ok(1);
    }
    Ok(0)
}

/// Spawns one `sim mainrun` process per index of this shard.
pub fn mainshard(a: ShardArgs, main: bool) -> Result<i32, String> {
    let exe = std::env::current_exe().map_err(|e| e.to_string())?;
    let t0 = Instant::now();
    let out = Path::new(&a.out);
    fs::create_dir_all(out).map_err(|e| e.to_string())?;
    let mut runs = 0u64;
    let mut sums: std::collections::BTreeMap<String, u64> = Default::default();
    let mut hashes: BTreeSetU64 = Default::default();
    let mut viol: Option<(u64, String, String, String)> = None;
    let mut undecided = 0u64;
    let mut no_park = a.no_park;
    let mut idx = a.from + ((a.offset + a.stride - (a.from % a.stride)) % a.stride);
    while idx < a.to {
        let mut cmd = std::process::Command::new(&exe);
        cmd.arg(if main { "mainrun" } else { "freshrun" })
            .arg("--seed")
            .arg(a.seed.to_string())
            .arg("--idx")
            .arg(idx.to_string())
            .arg("--out")
            .arg(&a.out);
        if a.thorough {
            cmd.arg("--thorough");
        }
        if crate::gen::yields_enabled() {
            cmd.arg("--yields");
        }
        if no_park {
            cmd.arg("--no-park");
        }
        let o = cmd.output().map_err(|e| format!("spawn mainrun: {}", e))?;
        let so = String::from_utf8_lossy(&o.stdout).to_string();
        let code = o.status.code();
        if code == Some(3) {
            // undecided: an operation blocked on a thread parked mid-operation;
            // the remaining runs of this shard never park mid-operation
            undecided += 1;
            no_park = true;
            idx += a.stride;
            continue;
        }
        if code != Some(0) && code != Some(1) {
            return Err(format!(
                "mainrun idx {} ended with status {:?}: {}{}",
                idx,
                code,
                so,
                String::from_utf8_lossy(&o.stderr)
            ));
        }
        runs += 1;
        let mut sig = String::new();
        let mut detail = String::new();
        let mut file = String::new();
        for l in so.lines() {
            if let Some(rest) = l.strip_prefix("MAINRUN ") {
                for kv in rest.split_whitespace() {
                    if let Some((k, v)) = kv.split_once('=') {
                        if k == "loghash" {
                            if let Ok(h) = u64::from_str_radix(v, 16) {
                                hashes.insert(h);
                            }
                        } else if k != "idx" {
                            *sums.entry(k.to_string()).or_insert(0) += v.parse::<u64>().unwrap_or(0);
                        }
                    }
                }
            } else if let Some(r) = l.strip_prefix("SIGNATURE ") {
                sig = r.to_string();
            } else if let Some(r) = l.strip_prefix("DETAIL ") {
                detail = r.to_string();
            } else if let Some(r) = l.strip_prefix("FILE ") {
                file = r.to_string();
            }
        }
        if code == Some(1) {
            viol = Some((idx, sig, detail, file));
            break;
        }
        idx += a.stride;
    }
    let mut o = Obj::new()
        .num("shard", a.offset)
        .num("runs", runs)
        .num("undecided_blocked", undecided)
        .num("distinct_loghashes", hashes.len())
        .num("wall_s", format!("{:.3}", t0.elapsed().as_secs_f64()));
    for (k, v) in &sums {
        o = o.num(k, *v);
    }
    let code = if let Some((idx, sig, detail, file)) = viol {
        o = o
            .num("violation_idx", idx)
            .str("violation_signature", &sig)
            .str("violation_detail", &detail)
            .str("violation_file", &file);
        1
    } else {
        0
    };
    fs::write(
        out.join(format!("{}shard-{:02}.json", if main { "main" } else { "fresh" }, a.offset)),
        o.build(),
    )
        .map_err(|e| e.to_string())?;
    Ok(code)
}

type BTreeSetU64 = std::collections::BTreeSet<u64>;
