//! Seeded PRNG.  One integer decides everything: every random choice of a run
//! (swarm configuration, workload, schedule, fault placement) is drawn, in a
//! fixed order, from a xoshiro256** stream initialised from
//! `run_seed(VERIF_SEED, run index)`.  Nothing in logging or checking paths
//! ever draws from it.

#[inline]
pub fn splitmix64(state: &mut u64) -> u64 {
    *state = state.wrapping_add(0x9E37_79B9_7F4A_7C15);
    let mut z = *state;
    z = (z ^ (z >> 30)).wrapping_mul(0xBF58_476D_1CE4_E5B9);
    z = (z ^ (z >> 27)).wrapping_mul(0x94D0_49BB_1331_11EB);
    z ^ (z >> 31)
}

/// Seed of run `idx` of a batch started from `base` (= VERIF_SEED).
pub fn run_seed(base: u64, idx: u64) -> u64 {
    let mut s = base ^ 0xC19C_19C1_9C19_C19C;
    let a = splitmix64(&mut s);
    let mut t = a ^ idx.wrapping_mul(0xD6E8_FEB8_6659_FD93);
    splitmix64(&mut t)
}

#[derive(Clone, Debug)]
pub struct Rng {
    s: [u64; 4],
}

impl Rng {
    pub fn from_seed(seed: u64) -> Self {
        let mut sm = seed;
        let s = [
            splitmix64(&mut sm),
            splitmix64(&mut sm),
            splitmix64(&mut sm),
            splitmix64(&mut sm),
        ];
        Rng { s }
    }

    #[inline]
    pub fn next_u64(&mut self) -> u64 {
        let result = self.s[1].wrapping_mul(5).rotate_left(7).wrapping_mul(9);
        let t = self.s[1] << 17;
        self.s[2] ^= self.s[0];
        self.s[3] ^= self.s[1];
        self.s[1] ^= self.s[2];
        self.s[0] ^= self.s[3];
        self.s[2] ^= t;
        self.s[3] = self.s[3].rotate_left(45);
        result
    }

    /// Uniform in `0..n` (n > 0).  Modulo bias is irrelevant here.
    #[inline]
    pub fn below(&mut self, n: u64) -> u64 {
        debug_assert!(n > 0);
        self.next_u64() % n
    }

    #[inline]
    pub fn usize_below(&mut self, n: usize) -> usize {
        self.below(n as u64) as usize
    }

    /// Uniform in `lo..=hi`.
    #[inline]
    pub fn range(&mut self, lo: i64, hi: i64) -> i64 {
        debug_assert!(lo <= hi);
        lo + self.below((hi - lo + 1) as u64) as i64
    }

    /// True with probability `pct` percent.
    #[inline]
    pub fn pct(&mut self, pct: u32) -> bool {
        self.below(100) < pct as u64
    }

    pub fn pick<'a, T>(&mut self, xs: &'a [T]) -> &'a T {
        &xs[self.usize_below(xs.len())]
    }

    /// Index drawn according to integer weights (at least one weight > 0).
    pub fn weighted(&mut self, weights: &[u32]) -> usize {
        let total: u64 = weights.iter().map(|w| *w as u64).sum();
        debug_assert!(total > 0);
        let mut x = self.below(total);
        for (i, w) in weights.iter().enumerate() {
            if x < *w as u64 {
                return i;
            }
            x -= *w as u64;
        }
        weights.len() - 1
    }
}

/// FNV-1a 64 — the log fingerprint.  (Not `DefaultHasher`: its keys are an
/// implementation detail of std and we want the fingerprint to be stable.)
#[derive(Clone, Copy)]
pub struct Fnv(pub u64);

impl Default for Fnv {
    fn default() -> Self {
        Fnv(0xcbf2_9ce4_8422_2325)
    }
}

impl Fnv {
    #[inline]
    pub fn bytes(&mut self, b: &[u8]) {
        for x in b {
            self.0 ^= *x as u64;
            self.0 = self.0.wrapping_mul(0x0000_0100_0000_01B3);
        }
    }
    #[inline]
    pub fn u64(&mut self, v: u64) {
        self.bytes(&v.to_le_bytes());
    }
    #[inline]
    pub fn str(&mut self, s: &str) {
        self.bytes(s.as_bytes());
        self.bytes(&[0xff]);
    }
}
