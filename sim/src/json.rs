//! Minimal JSON writer (no dependencies beyond the crates under test).

pub fn esc(s: &str) -> String {
    let mut o = String::with_capacity(s.len() + 2);
    o.push('"');
    for c in s.chars() {
        match c {
            '"' => o.push_str("\\\""),
            '\\' => o.push_str("\\\\"),
            '\n' => o.push_str("\\n"),
            '\r' => o.push_str("\\r"),
            '\t' => o.push_str("\\t"),
            c if (c as u32) < 0x20 => o.push_str(&format!("\\u{:04x}", c as u32)),
            c => o.push(c),
        }
    }
    o.push('"');
    o
}

#[derive(Default)]
pub struct Obj {
    parts: Vec<String>,
}

impl Obj {
    pub fn new() -> Obj {
        Obj { parts: Vec::new() }
    }
    pub fn num<T: std::fmt::Display>(mut self, k: &str, v: T) -> Obj {
        self.parts.push(format!("{}: {}", esc(k), v));
        self
    }
    pub fn str(mut self, k: &str, v: &str) -> Obj {
        self.parts.push(format!("{}: {}", esc(k), esc(v)));
        self
    }
    pub fn boolean(mut self, k: &str, v: bool) -> Obj {
        self.parts.push(format!("{}: {}", esc(k), v));
        self
    }
    pub fn raw(mut self, k: &str, v: String) -> Obj {
        self.parts.push(format!("{}: {}", esc(k), v));
        self
    }
    pub fn build(self) -> String {
        format!("{{{}}}", self.parts.join(", "))
    }
}

pub fn arr(items: Vec<String>) -> String {
    format!("[{}]", items.join(", "))
}

pub fn str_arr(items: &[String]) -> String {
    arr(items.iter().map(|s| esc(s)).collect())
}
