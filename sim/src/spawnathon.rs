//! Spawnathon: thread populations far beyond what a plan reaches.
//!
//! Phase 1 — a long history of thread CREATIONS during the life of two
//! sentinel threads (one with a custom mode, one that never leaves
//! HalfEven): `n_seq` short-lived threads, one after another; each must start
//! with HalfEven, sets a mode of its own, reads it back, rounds a witness and
//! exits.  The sentinels are checked every 512 creations and at the end.
//! (Thread numbers drawn from a 16-bit counter, tables indexed by a truncated
//! id: seeded change s41.)
//!
//! Phase 2 — `n_live` threads ALIVE AT THE SAME TIME, each with a mode of its
//! own; then every one of them, one at a time, checks its mode and rounds.
//! (Slot tables with an overflow slot: seeded change s40.)
//!
//! One thread runs at a time (channels), so the outcome is deterministic.

use std::sync::mpsc::{channel, Receiver, Sender};

use fpdec::RoundingMode;

use crate::ops::{exec_plain, mode_index, Op, Outcome, HALF_EVEN, MODES, MODE_NAMES};

fn witness() -> Op {
    Op::Round { a: (25, 1), n: 0 }
}

enum Ask {
    Check,
    Quit,
}

/// A long-lived thread: optionally sets `mode`, then answers every `Check`
/// with (default(), witness outcome).
fn sentinel(mode: Option<u8>, rx: Receiver<Ask>, tx: Sender<(u8, Outcome)>) {
    if let Some(m) = mode {
        RoundingMode::set_default(MODES[m as usize]);
    }
    let w = witness();
    while let Ok(Ask::Check) = rx.recv() {
        let _ = tx.send((mode_index(RoundingMode::default()), exec_plain(&w)));
    }
}

pub fn cmd_spawnathon(n_seq: u64, n_live: u64, mode: u8) -> Result<i32, String> {
    let mode = if mode % 8 == HALF_EVEN { 7 } else { mode % 8 };
    let w = witness();
    // expected witness results per mode, computed in isolation first
    let w2 = w.clone();
    let expect: Vec<Outcome> = std::thread::spawn(move || {
        (0..8usize)
            .map(|m| {
                RoundingMode::set_default(MODES[m]);
                exec_plain(&w2)
            })
            .collect()
    })
    .join()
    .map_err(|_| "reference thread died")?;

    let mut fail: Option<String> = None;
    // sentinels
    let mut sent: Vec<(u8, Sender<Ask>, Receiver<(u8, Outcome)>, std::thread::JoinHandle<()>)> = Vec::new();
    for m in [Some(mode), None] {
        let (atx, arx) = channel::<Ask>();
        let (rtx, rrx) = channel::<(u8, Outcome)>();
        let h = std::thread::spawn(move || sentinel(m, arx, rtx));
        sent.push((m.unwrap_or(HALF_EVEN), atx, rrx, h));
    }
    let mut check_sentinels = |when: &str| -> Option<String> {
        for (m, atx, rrx, _) in sent.iter() {
            if atx.send(Ask::Check).is_err() {
                return Some(format!("harness: sentinel gone {}", when));
            }
            match rrx.recv() {
                Ok((got, o)) => {
                    if got != *m {
                        return Some(format!(
                            "L1:spawnathon-read {}: a long-lived thread that last set {} reads {}",
                            when,
                            MODE_NAMES[*m as usize],
                            if got < 8 { MODE_NAMES[got as usize] } else { "?" }
                        ));
                    }
                    if o != expect[*m as usize] {
                        return Some(format!(
                            "L3:spawnathon {}: a long-lived thread in mode {} rounds 2.5 to {} (in isolation: {})",
                            when,
                            MODE_NAMES[*m as usize],
                            o.show(),
                            expect[*m as usize].show()
                        ));
                    }
                }
                Err(_) => return Some(format!("harness: sentinel died {}", when)),
            }
        }
        None
    };
    fail = fail.or_else(|| check_sentinels("before anything else"));

    // phase 1: many thread creations, one after another
    let mut i: u64 = 0;
    while fail.is_none() && i < n_seq {
        let m = (i % 8) as u8;
        let w3 = w.clone();
        let r = std::thread::Builder::new()
            .stack_size(128 * 1024)
            .spawn(move || {
                let first = mode_index(RoundingMode::default());
                RoundingMode::set_default(MODES[m as usize]);
                let back = mode_index(RoundingMode::default());
                (first, back, exec_plain(&w3))
            })
            .map_err(|e| format!("spawn: {}", e))?
            .join()
            .map_err(|_| "short-lived thread died".to_string())?;
        if r.0 != HALF_EVEN {
            fail = Some(format!(
                "L1:spawnathon-read thread #{} starts with {} (expected HalfEven)",
                i + 1,
                if r.0 < 8 { MODE_NAMES[r.0 as usize] } else { "?" }
            ));
        } else if r.1 != m {
            fail = Some(format!("L1:spawnathon-read thread #{} set {} and reads back {}", i + 1, MODE_NAMES[m as usize], r.1));
        } else if r.2 != expect[m as usize] {
            fail = Some(format!(
                "L3:spawnathon thread #{} in mode {} rounds 2.5 to {} (in isolation: {})",
                i + 1,
                MODE_NAMES[m as usize],
                r.2.show(),
                expect[m as usize].show()
            ));
        }
        i += 1;
        if fail.is_none() && i % 512 == 0 {
            fail = check_sentinels(&format!("after {} thread creations", i));
        }
    }
    if fail.is_none() {
        fail = check_sentinels(&format!("after {} thread creations", i));
    }

    // phase 2: many threads alive at once
    let mut crowd: Vec<(u8, Sender<Ask>, Receiver<(u8, Outcome)>, std::thread::JoinHandle<()>)> = Vec::new();
    let mut k: u64 = 0;
    while fail.is_none() && k < n_live {
        let m = ((k + 3) % 8) as u8;
        let (atx, arx) = channel::<Ask>();
        let (rtx, rrx) = channel::<(u8, Outcome)>();
        let h = std::thread::Builder::new()
            .stack_size(128 * 1024)
            .spawn(move || sentinel(Some(m), arx, rtx))
            .map_err(|e| format!("spawn (crowd of {}): {}", k, e))?;
        // make sure it has set its mode before the next one starts
        atx.send(Ask::Check).map_err(|_| "crowd thread gone")?;
        let (got, _) = rrx.recv().map_err(|_| "crowd thread died")?;
        if got != m {
            fail = Some(format!("L1:spawnathon-read crowd thread #{} set {} and reads back {}", k + 1, MODE_NAMES[m as usize], got));
        }
        crowd.push((m, atx, rrx, h));
        k += 1;
    }
    if fail.is_none() {
        for (ix, (m, atx, rrx, _)) in crowd.iter().enumerate() {
            let _ = atx.send(Ask::Check);
            match rrx.recv() {
                Ok((got, o)) => {
                    if got != *m {
                        fail = Some(format!(
                            "L1:spawnathon-read with {} threads alive, thread #{} that last set {} reads {}",
                            crowd.len() + 2,
                            ix + 1,
                            MODE_NAMES[*m as usize],
                            if got < 8 { MODE_NAMES[got as usize] } else { "?" }
                        ));
                        break;
                    }
                    if o != expect[*m as usize] {
                        fail = Some(format!(
                            "L3:spawnathon with {} threads alive, thread #{} in mode {} rounds 2.5 to {}",
                            crowd.len() + 2,
                            ix + 1,
                            MODE_NAMES[*m as usize],
                            o.show()
                        ));
                        break;
                    }
                }
                Err(_) => {
                    fail = Some("harness: crowd thread died".into());
                    break;
                }
            }
        }
    }
    if fail.is_none() {
        fail = check_sentinels(&format!("with {} threads alive", crowd.len() + 2));
    }
    for (_, atx, _, h) in crowd.into_iter().chain(sent.into_iter()) {
        let _ = atx.send(Ask::Quit);
        let _ = h.join();
    }
    match fail {
        Some(f) if f.starts_with("harness") => Err(f),
        Some(f) => {
            println!("VIOLATION-SPAWNATHON {}", f);
            Ok(1)
        }
        None => {
            println!("SPAWNATHON-OK sequential={} alive_at_once={} mode={}", n_seq, n_live, MODE_NAMES[mode as usize]);
            Ok(0)
        }
    }
}
