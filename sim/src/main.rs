//! Deterministic simulation of `fpdec`'s per-thread default rounding mode
//! (property C19).  See /verif/DESIGN.md.
//!
//! exit codes: 0 = held on everything explored, 1 = violation, 2 = harness error

mod engine;
mod free;
mod gen;
mod json;
mod l2;
mod probe;
mod ties;
mod marathon;
mod spawnathon;
mod minimize;
mod ops;
mod oracle;
mod plan;
mod prng;
mod shard;

use std::collections::HashMap;
use std::fs;
use std::path::Path;

use json::{arr, esc, Obj};
use plan::Session;

const L2_HEADER: &str = "fpdec-sim-l2 1";

static MAIN_THREAD: std::sync::OnceLock<std::thread::ThreadId> = std::sync::OnceLock::new();

fn silent_panic_hook() {
    let _ = MAIN_THREAD.set(std::thread::current().id());
    // harness-only, process-global: caught panics of the real code (division
    // by zero, overflow, …) are expected outcomes, not noise for stderr
    // — except on the harness's own main thread, whose panics are bugs.
    std::panic::set_hook(Box::new(|info| {
        // (simulated threads may be NAMED "main" too; the real one is the
        // one whose id was recorded at start-up)
        if MAIN_THREAD.get() == Some(&std::thread::current().id()) || std::env::var_os("SIM_PANIC_VERBOSE").is_some() {
            eprintln!("HARNESS-PANIC: {}", info);
        }
    }));
}

struct Args {
    pos: Vec<String>,
    kv: HashMap<String, String>,
    flags: Vec<String>,
}

fn parse_args(raw: &[String]) -> Args {
    let mut pos = Vec::new();
    let mut kv = HashMap::new();
    let mut flags = Vec::new();
    let takes_value = [
        "--seed", "--from", "--to", "--stride", "--offset", "--out", "--idx",
        "--watchdog", "--family", "--tmp", "--plan", "--threads", "--budget", "--steps", "--part", "--ops", "--mode", "--alive", "--probes", "--probe-from",
    ];
    let mut i = 0;
    while i < raw.len() {
        let a = &raw[i];
        if takes_value.contains(&a.as_str()) {
            if i + 1 < raw.len() {
                kv.insert(a.clone(), raw[i + 1].clone());
                i += 2;
                continue;
            }
        }
        if a.starts_with("--") {
            flags.push(a.clone());
        } else {
            pos.push(a.clone());
        }
        i += 1;
    }
    Args { pos, kv, flags }
}

impl Args {
    fn u64(&self, k: &str, dflt: u64) -> Result<u64, String> {
        match self.kv.get(k) {
            None => Ok(dflt),
            Some(v) => {
                if let Some(h) = v.strip_prefix("0x") {
                    u64::from_str_radix(h, 16).map_err(|e| format!("{} {}: {}", k, v, e))
                } else {
                    v.parse::<u64>().map_err(|e| format!("{} {}: {}", k, v, e))
                }
            }
        }
    }
    fn has(&self, f: &str) -> bool {
        self.flags.iter().any(|x| x == f)
    }
}

fn cmd_l2(a: &Args) -> Result<i32, String> {
    let n_probes = match a.kv.get("--probes") {
        Some(x) => x.parse::<u64>().map_err(|e| format!("--probes: {}", e))?,
        None => probe::DEFAULT_PROBES,
    };
    let p_from = a.u64("--probe-from", 0)?;
    let rep = l2::run_n(a.kv.get("--family").cloned(), (p_from, n_probes))?;
    let fails: Vec<String> = rep
        .failures
        .iter()
        .map(|f| {
            Obj::new()
                .str("signature", &format!("L2:{}", f.kind))
                .str("family", &f.family)
                .str("detail", &f.detail)
                .build()
        })
        .collect();
    let o = Obj::new()
        .num("families", rep.families)
        .num("witness_evals", rep.witness_evals)
        .num("pairs_separated", rep.pairs_separated)
        .str("sample", &rep.sample)
        .num("probe_from", p_from as usize)
        .num("probes", rep.probe.probes as usize)
        .num("probes_judged", rep.probe.judged as usize)
        .num("probes_skipped_no_value", rep.probe.skipped as usize)
        .num("probe_evals", rep.probe.evals as usize)
        .num("tie_problems", rep.ties.problems as usize)
        .num("tie_problems_judged", rep.ties.judged as usize)
        .num("tie_evals", rep.ties.evals as usize)
        .raw(
            "probes_judged_per_route",
            format!(
                "{{{}}}",
                probe::ROUTE_NAMES
                    .iter()
                    .zip(rep.probe.per_route_judged.iter())
                    .map(|(n, c)| format!("\"{}\":{}", n, c))
                    .collect::<Vec<_>>()
                    .join(",")
            ),
        )
        .raw("failures", arr(fails))
        .build();
    if let Some(out) = a.kv.get("--out") {
        fs::write(out, &o).map_err(|e| e.to_string())?;
    } else {
        println!("{}", o);
    }
    if let Some(f) = rep.failures.first() {
        println!("SIGNATURE L2:{}", f.kind);
        println!("L2 {} [{}]: {}", f.kind, f.family, f.detail);
        return Ok(1);
    }
    Ok(0)
}

fn cmd_replay(a: &Args) -> Result<i32, String> {
    let file = a.pos.get(1).ok_or("replay: file argument missing")?;
    let text = fs::read_to_string(file).map_err(|e| format!("{}: {}", file, e))?;
    let first = text.lines().find(|l| !l.trim().is_empty() && !l.starts_with('#')).unwrap_or("");
    if first.trim() == L2_HEADER {
        // `env NAME=VALUE` lines: process environment under which the
        // library is (first) used — set before anything touches it
        for l in text.lines() {
            if let Some(kv) = l.strip_prefix("env ") {
                if let Some((k, v)) = kv.trim().split_once('=') {
                    std::env::set_var(k, v);
                }
            }
        }
        let fam = text
            .lines()
            .find_map(|l| l.strip_prefix("family "))
            .map(|s| s.trim().to_string());
        // `probes <from> <n>`: the index range of the random probe (whole-pass replays)
        let pr = text
            .lines()
            .find_map(|l| l.strip_prefix("probes "))
            .and_then(|s| {
                let mut it = s.split_whitespace().map(|x| x.parse::<u64>().ok());
                match (it.next().flatten(), it.next().flatten()) {
                    (Some(a), Some(n)) => Some((a, n)),
                    _ => None,
                }
            })
            .unwrap_or((0, probe::DEFAULT_PROBES));
        let rep = l2::run_n(fam, pr)?;
        for f in &rep.failures {
            println!("!! L2:{} [{}] {}", f.kind, f.family, f.detail);
        }
        if let Some(f) = rep.failures.first() {
            println!("SIGNATURE L2:{}", f.kind);
            println!("LOGHASH 0");
            return Ok(1);
        }
        println!("LOGHASH 0");
        return Ok(0);
    }
    let session = Session::parse(&text)?;
    let wd = match a.kv.get("--watchdog") {
        Some(_) => Some(a.u64("--watchdog", 30)?),
        None => None,
    };
    let out = shard::replay_session(&session, wd)?;
    if !a.has("--quiet") {
        print!("{}", out.text);
    }
    println!("LOGHASH {:016x}", out.combined_hash);
    match out.signature {
        Some(sig) => {
            println!("SIGNATURE {}", sig);
            if out.text.contains("UNDECIDED (blocked)") {
                std::process::exit(1);
            }
            Ok(1)
        }
        None => {
            if out.text.contains("UNDECIDED (blocked)") {
                // stuck threads: leave without joining them
                std::process::exit(3);
            }
            Ok(0)
        }
    }
}

fn cmd_minimize(a: &Args) -> Result<i32, String> {
    let file = a.pos.get(1).ok_or("minimize: input file missing")?;
    let outf = a.pos.get(2).ok_or("minimize: output file missing")?;
    let text = fs::read_to_string(file).map_err(|e| format!("{}: {}", file, e))?;
    let session = Session::parse(&text)?;
    let tmp = a
        .kv
        .get("--tmp")
        .cloned()
        .unwrap_or_else(|| "/verif/sim/target/tmp".to_string());
    let wd = a.u64("--watchdog", 3)?;
    let budget = a.u64("--budget", 120)?;
    let mut m = minimize::Minimizer::new(Path::new(&tmp), wd, budget)?;
    let r = m.minimize(&session);
    m.cleanup();
    let min = r?;
    fs::write(outf, min.to_text()).map_err(|e| e.to_string())?;
    let steps: usize = min.plans.iter().map(|p| p.steps.len()).sum();
    println!(
        "MINIMIZED signature={} runs={} steps={} candidates={}",
        m.target,
        min.plans.len(),
        steps,
        m.candidates
    );
    Ok(0)
}

fn cmd_gen(a: &Args) -> Result<i32, String> {
    let seed = a.u64("--seed", 1)?;
    let thorough = a.has("--thorough");
    let mut plans = Vec::new();
    if a.kv.contains_key("--idx") {
        let idx = a.u64("--idx", 0)?;
        plans.push(gen::gen_plan(prng::run_seed(seed, idx), idx, thorough).plan);
    } else {
        let from = a.u64("--from", 0)?;
        let to = a.u64("--to", 1)?;
        let stride = a.u64("--stride", 1)?;
        let offset = a.u64("--offset", 0)?;
        let mut idx = from + ((offset + stride - (from % stride)) % stride);
        while idx < to {
            plans.push(gen::gen_plan(prng::run_seed(seed, idx), idx, thorough).plan);
            idx += stride;
        }
    }
    let s = Session { plans };
    match a.kv.get("--out") {
        Some(o) => fs::write(o, s.to_text()).map_err(|e| e.to_string())?,
        None => print!("{}", s.to_text()),
    }
    Ok(0)
}

fn cmd_shard(a: &Args) -> Result<i32, String> {
    let sa = shard::ShardArgs {
        seed: a.u64("--seed", 1)?,
        from: a.u64("--from", 0)?,
        to: a.u64("--to", 100)?,
        stride: a.u64("--stride", 1)?,
        offset: a.u64("--offset", 0)?,
        thorough: a.has("--thorough"),
        out: a.kv.get("--out").cloned().ok_or("--out missing")?,
        dump_hashes: a.has("--dump-hashes"),
        no_park: a.has("--no-park"),
        part: a.u64("--part", 0)?,
    };
    let code = shard::shard_main(sa)?;
    if code == 3 {
        // threads of the abandoned run are stuck: leave without joining them
        std::process::exit(3);
    }
    Ok(code)
}

fn real_main() -> Result<i32, String> {
    let raw: Vec<String> = std::env::args().skip(1).collect();
    let a = parse_args(&raw);
    let cmd = a.pos.first().map(|s| s.as_str()).unwrap_or("");
    if cmd != "free" {
        silent_panic_hook();
    }
    if a.has("--yields") {
        if !engine::hooks_compiled() {
            return Err("--yields needs the hooks build (RUSTFLAGS=\"--cfg fpdec_verif\")".into());
        }
        gen::enable_yields(true);
    }
    engine::install_hook();
    match cmd {
        "l2" => cmd_l2(&a),
        "shard" => cmd_shard(&a),
        "mainshard" | "freshshard" => {
            let sa = shard::ShardArgs {
                seed: a.u64("--seed", 1)?,
                from: a.u64("--from", 0)?,
                to: a.u64("--to", 100)?,
                stride: a.u64("--stride", 1)?,
                offset: a.u64("--offset", 0)?,
                thorough: a.has("--thorough"),
                out: a.kv.get("--out").cloned().ok_or("--out missing")?,
                dump_hashes: false,
                no_park: a.has("--no-park"),
                part: 0,
            };
            shard::mainshard(sa, cmd == "mainshard")
        }
        "mainrun" | "freshrun" => shard::mainrun(
            a.u64("--seed", 1)?,
            a.u64("--idx", 0)?,
            a.has("--thorough"),
            a.kv.get("--out").map(|s| s.as_str()).unwrap_or("/verif/sim/target/tmp"),
            cmd == "mainrun",
            a.has("--no-park"),
        )
        .map(|c| {
            if c == 3 {
                std::process::exit(3);
            }
            c
        }),
        "replay" => cmd_replay(&a),
        "minimize" => cmd_minimize(&a),
        "gen" => cmd_gen(&a),
        "free" => free::cmd_free(&a.kv, &a.flags),
        "refeval" => oracle::refeval_main(),
        "refserver" => oracle::refserver_main(),
        "spawnathon" => spawnathon::cmd_spawnathon(
            a.u64("--threads", 70000)?,
            a.u64("--alive", 1600)?,
            a.u64("--mode", 7)? as u8,
        ),
        "marathon" => marathon::cmd_marathon(a.u64("--ops", 1 << 20)?, a.u64("--mode", 7)? as u8),
        "hooks" => {
            println!("{}", engine::hooks_compiled());
            Ok(0)
        }
        "modes" => {
            println!("{}", arr(ops::MODE_NAMES.iter().map(|m| esc(m)).collect()));
            Ok(0)
        }
        _ => Err(
            "usage: sim l2|shard|replay|minimize|gen|free … (see /verif/DESIGN.md)".into(),
        ),
    }
}

fn main() {
    match real_main() {
        Ok(code) => std::process::exit(code),
        Err(e) => {
            eprintln!("HARNESS-ERROR: {}", e);
            std::process::exit(2);
        }
    }
}
